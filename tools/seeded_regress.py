#!/venv/bin/python
"""Run every kept seeded change (seeded/<id>/patch.diff) against the current checks: scratch copy of /repo (removed afterwards), patch applied,
the property's own quick check at the given seeds.  Writes seeded/REGRESSION.md (one row per seed).

  tools/seeded_regress.py [--seeds 1] [--only C01_c01_A,...] [--extra]   (--extra also runs the neighbouring checks recorded in meta.json)
"""
from __future__ import annotations

import argparse
import json
import os
import shutil
import subprocess
import tempfile
import time
from pathlib import Path

ROOT = Path(__file__).resolve().parent.parent


def main() -> int:
    ap = argparse.ArgumentParser()
    ap.add_argument("--seeds", default="1")
    ap.add_argument("--only", default=None)
    ap.add_argument("--extra", action="store_true")
    a = ap.parse_args()
    rows = []
    dirs = sorted(d for d in (ROOT / "seeded").iterdir() if (d / "patch.diff").exists())
    if a.only:
        dirs = [d for d in dirs if d.name in a.only.split(",")]
    for d in dirs:
        meta = json.loads((d / "meta.json").read_text())
        pid = meta["property"]
        checks = [pid] + ([k for k in meta.get("checks", {}) if k != pid] if a.extra else [])
        tmp = Path(tempfile.mkdtemp(prefix=f"sreg_{d.name}_", dir="/tmp"))
        try:
            subprocess.run(["rsync", "-a", "--exclude", ".git", "--exclude", "__pycache__", "/repo/", f"{tmp}/"], check=True)
            rp = subprocess.run(["patch", "-p1", "-s", "-i", str(d / "patch.diff")], cwd=tmp, capture_output=True, text=True)
            if rp.returncode != 0:
                rows.append((d.name, pid, "patch does not apply to the current tree", ""))
                print(d.name, "PATCH-FAIL", flush=True)
                continue
            res = []
            for c in checks:
                for seed in a.seeds.split(","):
                    t0 = time.monotonic()
                    env = {**os.environ, "VERIF_REPO": str(tmp), "VERIF_OUT": str(tmp / "_out"), "VERIF_SEED": seed}
                    r = subprocess.run([str(ROOT / "check"), c], env=env, cwd=ROOT, capture_output=True, text=True)
                    first = next((ln.strip() for ln in r.stdout.splitlines() if ln.strip().startswith("failure")), "")
                    res.append((c, seed, r.returncode, round(time.monotonic() - t0, 1), first[:160]))
            own = [x for x in res if x[0] == pid]
            verdict = "detected" if all(x[2] == 1 for x in own) else ("detected at some seeds" if any(x[2] == 1 for x in own) else ("ERROR" if any(x[2] == 2 for x in own) else "missed"))
            rows.append((d.name, pid, verdict, "; ".join(f"{c}@seed{s}:{'detected' if rc == 1 else ('ERROR' if rc == 2 else 'missed')}({w}s)" for c, s, rc, w, _ in res), own[0][4] if own else ""))
            print(d.name, verdict, flush=True)
        finally:
            shutil.rmtree(tmp, ignore_errors=True)
    # results are kept in seeded/regression.json so that `--only` re-runs update single rows
    jp = ROOT / "seeded" / "regression.json"
    store: dict = {}
    if jp.exists():
        store = json.loads(jp.read_text())
    elif (ROOT / "seeded" / "REGRESSION.md").exists() and a.only:
        for ln in (ROOT / "seeded" / "REGRESSION.md").read_text().splitlines():
            cells = [c.strip() for c in ln.strip().strip("|").split(" | ")]
            if ln.startswith("| C") and len(cells) >= 4:
                store[cells[0]] = cells + [""] * (5 - len(cells))
    for r in rows:
        store[r[0]] = [str(x) for x in r] + [""] * (5 - len(r))
    jp.write_text(json.dumps(store, indent=1, sort_keys=True))
    rows = [tuple(store[k]) for k in sorted(store)]
    out = ["# Seeded changes against the current checks", "",
           f"Produced by `tools/seeded_regress.py --seeds {a.seeds}` (quick tier; scratch copies of the repository, removed afterwards).", "",
           "| seed | property | own check | runs | first reported failure |", "|---|---|---|---|---|"]
    for r in rows:
        out.append("| " + " | ".join(str(x).replace("|", "\\|") for x in r) + " |")
    n = sum(1 for r in rows if r[2] == "detected")
    out += ["", f"{n} of {len(rows)} detected by the property's own check at every listed seed."]
    (ROOT / "seeded" / "REGRESSION.md").write_text("\n".join(out) + "\n")
    print(out[-1])
    return 0


if __name__ == "__main__":
    raise SystemExit(main())
