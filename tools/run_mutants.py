#!/venv/bin/python
"""Sensitivity validation: apply each mutant (exact string replacement) to a scratch copy of the
repository outside /repo and /verif, run the named quick checks against it ($VERIF_REPO), record
whether they report a VIOLATION, and remove the copy.  Not a registered check.

  tools/run_mutants.py [--only ID[,ID]] [--props C01,C02] [--tests] [--tier quick] [--jobs 4]

mutants/mutants.json: [{"id", "file", "old", "new", "count"?, "properties": [...], "note"?}]
or {"id", "patch": "seeded/<id>/patch.diff", "properties": [...]}
"""
from __future__ import annotations

import argparse
import json
import os
import shutil
import subprocess
import sys
import tempfile
import time
from concurrent.futures import ThreadPoolExecutor
from pathlib import Path

ROOT = Path(__file__).resolve().parent.parent
REPO = Path(os.environ.get("VERIF_REPO", "/repo"))


def make_copy(m: dict) -> Path:
    d = Path(tempfile.mkdtemp(prefix=f"mut_{m['id']}_", dir="/tmp"))
    subprocess.run(["rsync", "-a", "--exclude", ".git", "--exclude", "__pycache__", "--exclude", ".hypothesis", f"{REPO}/", f"{d}/"], check=True)
    if "patch" in m:
        subprocess.run(["patch", "-p1", "-s", "-i", str(ROOT / m["patch"])], cwd=d, check=True)
    else:
        edits = m.get("edits") or [m]
        for e in edits:
            p = d / e["file"]
            s = p.read_text()
            cnt = s.count(e["old"])
            want = e.get("count", 1)
            if cnt != want:
                shutil.rmtree(d)
                raise SystemExit(f"mutant {m['id']}: expected {want} occurrence(s) of the old text in {e['file']}, found {cnt}")
            p.write_text(s.replace(e["old"], e["new"]))
    return d


def run_one(m: dict, props: list[str] | None, tier: str, tests: bool, seed: str) -> dict:
    try:
        d = make_copy(m)
    except SystemExit as e:  # the mutant's anchor text is gone from the tree: report it, do not abort the whole run
        print(f"{m['id']:40s} NOT-APPLICABLE {e}", flush=True)
        return {"id": m["id"], "checks": {}, "tests": None, "error": str(e)}
    res = {"id": m["id"], "checks": {}, "tests": None}
    try:
        if tests:
            r = subprocess.run([str(ROOT / "tools" / "baseline.py"), str(d)], capture_output=True, text=True)
            tail = ("PASS " if r.returncode == 0 else "FAIL ") + (r.stdout.strip().splitlines()[0] if r.stdout.strip() else "")
            res["tests"] = tail
        for pid in (props or m["properties"]):
            t0 = time.monotonic()
            env = {**os.environ, "VERIF_REPO": str(d), "VERIF_OUT": str(d / "_verif_out"), "VERIF_SEED": seed, "VERIF_NPROC": os.environ.get("VERIF_NPROC", "16")}
            r = subprocess.run([str(ROOT / "check"), pid, "--tier", tier], capture_output=True, text=True, env=env, cwd=ROOT)
            viol = [ln for ln in r.stdout.splitlines() if ln.startswith("VIOLATION")]
            first = next((ln.strip() for ln in r.stdout.splitlines() if ln.strip().startswith("failure")), "")
            res["checks"][pid] = {"exit": r.returncode, "violations": len(viol), "wall_s": round(time.monotonic() - t0, 1), "first": first[:200]}
            if r.returncode == 2:
                res["checks"][pid]["stderr"] = (r.stdout[-600:] + r.stderr[-600:])
    finally:
        keep = os.environ.get("MUTANT_KEEP_REPLAYS")
        if keep and (d / "_verif_out" / "replays").exists():
            shutil.copytree(d / "_verif_out" / "replays", Path(keep) / m["id"], dirs_exist_ok=True)
        shutil.rmtree(d, ignore_errors=True)
        # replays written while testing a mutant are not evidence about /repo
    return res


def main() -> int:
    ap = argparse.ArgumentParser()
    ap.add_argument("--only", default=None)
    ap.add_argument("--props", default=None)
    ap.add_argument("--tests", action="store_true")
    ap.add_argument("--tier", default="quick")
    ap.add_argument("--jobs", type=int, default=1)
    ap.add_argument("--seed", default="1")
    ap.add_argument("--file", default=str(ROOT / "mutants" / "mutants.json"))
    a = ap.parse_args()
    muts = json.loads(Path(a.file).read_text())
    if a.only:
        ids = set(a.only.split(","))
        muts = [m for m in muts if m["id"] in ids]
    props = a.props.split(",") if a.props else None
    out = []
    if True:
        with ThreadPoolExecutor(max_workers=a.jobs) as ex:
            for r in ex.map(lambda m: run_one(m, props, a.tier, a.tests, a.seed), muts):
                out.append(r)
                ks = ", ".join(f"{p}:{'KILLED' if c['exit'] == 1 else ('ERROR' if c['exit'] == 2 else 'survived')}({c['wall_s']}s)" for p, c in r["checks"].items())
                print(f"{r['id']:40s} tests={r['tests']!s:30s} {ks}", flush=True)
                for p, c in r["checks"].items():
                    if c["exit"] == 1:
                        print(f"      {p}: {c['first']}")
                    if c["exit"] == 2:
                        print(f"      {p}: ERROR {c.get('stderr', '')[-400:]}")
    Path(ROOT / "mutants" / "last_run.json").write_text(json.dumps(out, indent=1))
    return 0


if __name__ == "__main__":
    sys.exit(main())
