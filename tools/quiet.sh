#!/bin/bash
# Quietness sweep: every check at several seeds on the unchanged tree; prints one line per (check, seed).
# usage: tools/quiet.sh "2 3 4" [tier] [ids...]
cd "$(dirname "$0")/.." || exit 2
SEEDS="${1:-2 3 4}"; TIER="${2:-quick}"; shift 2 2>/dev/null
IDS="${*:-C01 C02 C03 C04 C05 C06 C07 C08 C09 C10 C11 C12 C13 C14 C15 C16 C17 C18}"
export VERIF_OUT="${VERIF_OUT:-$(mktemp -d /tmp/quiet_XXXX)}"
for s in $SEEDS; do for id in $IDS; do
  t0=$(date +%s)
  out=$(VERIF_SEED=$s ./check $id --tier $TIER 2>&1); rc=$?
  echo "seed=$s $id exit=$rc $(( $(date +%s) - t0 ))s $(echo "$out" | grep -E '^\[C' | head -1)"
  if [ $rc -ne 0 ]; then echo "$out" | grep -E "failure|HARNESS|VIOLATION|Error|note:" | head -12; echo "$out" | tail -5 | sed 's/^/    | /'; cp -r "$VERIF_OUT/replays" "/tmp/quiet_fail_${id}_$s" 2>/dev/null; fi
done; done
rm -rf "$VERIF_OUT"
