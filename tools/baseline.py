#!/venv/bin/python
"""Run the repository's pinned test suite in <dir> (default /repo) and compare the set of passing
tests with /root/.vp/BASELINE.json's stable_pass list. Exit 0 iff every baseline test passes."""
from __future__ import annotations

import json
import os
import subprocess
import sys
import tempfile
import xml.etree.ElementTree as ET
from pathlib import Path


def main() -> int:
    d = Path(sys.argv[1] if len(sys.argv) > 1 else "/repo")
    base = json.loads(Path("/root/.vp/BASELINE.json").read_text())
    want = set(base["stable_pass"])
    with tempfile.TemporaryDirectory() as td:
        xml = Path(td) / "r.xml"
        subprocess.run(
            ["/venv/bin/python", "-m", "pytest", "-ra", "-q", "-p", "no:cacheprovider", "--timeout=900",
             "--continue-on-collection-errors", f"--junitxml={xml}"],
            cwd=d, capture_output=True, text=True, env={**os.environ, "PYTHONPATH": str(d)})
        passed = set()
        for tc in ET.parse(xml).getroot().iter("testcase"):
            if not any(ch.tag in ("failure", "error", "skipped") for ch in tc):
                passed.add(f"{tc.get('classname')}::{tc.get('name')}")
    missing = sorted(want - passed)
    print(f"baseline: {len(want & passed)}/{len(want)} stable tests pass; {len(passed - want)} extra passing")
    for m in missing[:20]:
        print("  MISSING", m)
    return 0 if not missing else 1


if __name__ == "__main__":
    sys.exit(main())
