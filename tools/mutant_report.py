#!/venv/bin/python
"""Collect the result lines printed by tools/run_mutants.py (from the given log files) into mutants/REPORT.md."""
import json, re, sys
from pathlib import Path
ROOT = Path(__file__).resolve().parent.parent
rows = {}
for fn in sys.argv[1:]:
    for ln in Path(fn).read_text(errors="replace").splitlines():
        m = re.match(r"^(\S+)\s+tests=(PASS|FAIL|None)\b.*?((?:C\d\d:\w+\([\d.]+s\)(?:, )?)+)\s*$", ln)
        if m:
            rows[m.group(1)] = (m.group(2), m.group(3))
muts = {m["id"]: m for m in json.loads((ROOT / "mutants" / "mutants.json").read_text())}
out = ["# Mutant sensitivity report", "", "Produced by `tools/run_mutants.py --tests` on scratch copies of the repository (removed afterwards); quick tier, VERIF_SEED=1.",
       "`suite` = does the pinned 165-test suite still pass with the mutant applied (a FAIL means the existing tests already catch it; such mutants only show that the check is at least as sensitive).", "",
       "| mutant | file | suite | checks |", "|---|---|---|---|"]
for k in sorted(rows):
    m = muts.get(k, {})
    f = m.get("file") or (m.get("edits", [{}])[0].get("file") if m.get("edits") else m.get("patch", ""))
    out.append(f"| {k} | {f} | {rows[k][0]} | {rows[k][1]} |")
missing = sorted(set(muts) - set(rows))
if missing:
    out += ["", "Not yet run: " + ", ".join(missing)]
(ROOT / "mutants" / "REPORT.md").write_text("\n".join(out) + "\n")
print(len(rows), "rows;", len(missing), "missing")
