#!/venv/bin/python
"""Collect the result lines printed by tools/run_mutants.py (from the given log files, later files win) and the suite verdicts of
tools/mutant_suite.py (mutants/suite_status.json) into mutants/REPORT.md."""
import json, re, sys
from pathlib import Path
ROOT = Path(__file__).resolve().parent.parent
rows = {}
tests = {}
for fn in sys.argv[1:]:
    for ln in Path(fn).read_text(errors="replace").splitlines():
        m = re.match(r"^(\S+)\s+tests=(PASS|FAIL|None)\b.*?((?:C\d\d:\w+\([\d.]+s\)(?:, )?)+)\s*$", ln)
        if m:
            rows[m.group(1)] = m.group(3)
            if m.group(2) != "None":
                tests[m.group(1)] = m.group(2)
sp = ROOT / "mutants" / "suite_status.json"
if sp.exists():
    for k, v in json.loads(sp.read_text()).items():
        tests[k] = v.split()[0]
muts = {m["id"]: m for m in json.loads((ROOT / "mutants" / "mutants.json").read_text())}
out = ["# Mutant sensitivity report", "", "Produced by `tools/run_mutants.py` (checks; quick tier, VERIF_SEED=1) and `tools/mutant_suite.py` (suite) on scratch copies of the repository (removed afterwards).",
       "`suite` = does the pinned 165-test suite still pass with the mutant applied (a FAIL means the existing tests already catch it; such mutants only show that the check is at least as sensitive).",
       "`revert_Fn` = the repaired tree with the fix of finding Fn reverted.", "",
       "| mutant | file | suite | checks |", "|---|---|---|---|"]
for k in sorted(rows):
    m = muts.get(k, {})
    f = m.get("file") or (m.get("edits", [{}])[0].get("file") if m.get("edits") else m.get("patch", ""))
    out.append(f"| {k} | {f} | {tests.get(k, '?')} | {rows[k]} |")
missing = sorted(set(muts) - set(rows))
if missing:
    out += ["", "Not yet run: " + ", ".join(missing)]
killed = sum(1 for k in rows if "KILLED" in rows[k])
out += ["", f"{killed} of {len(rows)} mutants are reported by at least one of the checks listed for them; {sum(1 for k in rows if tests.get(k) == 'PASS')} of them leave the pinned suite green."]
(ROOT / "mutants" / "REPORT.md").write_text("\n".join(out) + "\n")
print(len(rows), "rows;", len(missing), "missing;", killed, "killed")
