#!/venv/bin/python
import json,sys
for fn in sys.argv[1:]:
    d=json.load(open(fn))
    print("=====",fn.split('/')[-1], d.get("stream"))
    for f in d["failures"][:3]:
        print("  ", f["oracle"], "|", f["signature"]); print("     ", f["message"][-900:].replace("\n","\n      "))
    c=d["case"]
    cfgd = c.get("config", c)
    if isinstance(cfgd, dict) and "groups" in cfgd:
        for g in cfgd["groups"]:
            cfg=g["cfg"]; print("  cfg:", {k:v for k,v in cfg.items()}, "\n  shapes", g["shapes"], "inherit", g.get("inherit"))
        print("  steps:", len(c.get("steps",[])), [ (s["mask"], s["gkind"], s["gscale"], s.get("edits")) for s in c.get("steps",[])])
    else:
        print("  case:", json.dumps(c)[:1500])
