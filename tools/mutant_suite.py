#!/venv/bin/python
"""Does the pinned 165-test suite still pass with each mutant applied?  (scratch copies, removed afterwards; parallel)
Writes mutants/suite_status.json {mutant id: "PASS ..." | "FAIL ..."}; used by tools/mutant_report.py."""
from __future__ import annotations

import json
import shutil
import subprocess
import sys
from concurrent.futures import ThreadPoolExecutor
from pathlib import Path

sys.path.insert(0, str(Path(__file__).resolve().parent))
import run_mutants as rmu  # noqa: E402

ROOT = rmu.ROOT


def one(m: dict) -> tuple[str, str]:
    try:
        d = rmu.make_copy(m)
    except SystemExit as e:
        return m["id"], f"ERROR {e}"
    try:
        r = subprocess.run([str(ROOT / "tools" / "baseline.py"), str(d)], capture_output=True, text=True)
        return m["id"], ("PASS " if r.returncode == 0 else "FAIL ") + (r.stdout.strip().splitlines()[0] if r.stdout.strip() else "")
    finally:
        shutil.rmtree(d, ignore_errors=True)


def main() -> int:
    jobs = int(sys.argv[1]) if len(sys.argv) > 1 else 6
    muts = json.loads((ROOT / "mutants" / "mutants.json").read_text())
    out_p = ROOT / "mutants" / "suite_status.json"
    status = json.loads(out_p.read_text()) if out_p.exists() else {}
    todo = [m for m in muts if m["id"] not in status]
    with ThreadPoolExecutor(max_workers=jobs) as ex:
        for mid, st in ex.map(one, todo):
            status[mid] = st
            out_p.write_text(json.dumps(status, indent=1, sort_keys=True))
            print(mid, st, flush=True)
    return 0


if __name__ == "__main__":
    raise SystemExit(main())
