#!/venv/bin/python
"""Re-verify a seeded change delivered by a sub-agent and run the checks against it.

  tools/verify_seeded.py <worktree>/SEEDED/<X> <seed id> <property> [--checks C01,C04] [--tier quick] [--seeds 1,2]

Steps (all on scratch copies of /repo outside /repo and /verif, removed afterwards):
  1. demo on the unmodified tree must exit 0
  2. patch applies; pinned 165-test suite passes; demo exits non-zero
  3. run the named checks (default: the property's own check) against the patched copy, per seed
Writes /verif/seeded/<seed id>/{patch.diff, demo.py, README.md, meta.json}.
"""
from __future__ import annotations

import argparse
import json
import os
import shutil
import subprocess
import sys
import tempfile
import time
from pathlib import Path

ROOT = Path(__file__).resolve().parent.parent


def sh(cmd, **kw):
    return subprocess.run(cmd, capture_output=True, text=True, **kw)


def main() -> int:
    ap = argparse.ArgumentParser()
    ap.add_argument("src")
    ap.add_argument("sid")
    ap.add_argument("prop")
    ap.add_argument("--checks", default=None)
    ap.add_argument("--tier", default="quick")
    ap.add_argument("--seeds", default="1")
    ap.add_argument("--skip-tests", action="store_true")
    a = ap.parse_args()
    src = Path(a.src)
    dst = ROOT / "seeded" / a.sid
    dst.mkdir(parents=True, exist_ok=True)
    for f in ("patch.diff", "demo.py", "README.md"):
        if (src / f).exists():
            shutil.copy(src / f, dst / f)
    meta: dict = {"id": a.sid, "property": a.prop, "source": "independent sub-agent (saw only the property text and a scratch worktree)", "verified": {}, "checks": {}}
    d = Path(tempfile.mkdtemp(prefix=f"seed_{a.sid}_", dir="/tmp"))
    try:
        sh(["rsync", "-a", "--exclude", ".git", "--exclude", "__pycache__", "--exclude", "SEEDED", "/repo/", f"{d}/"])
        env = {**os.environ, "PYTHONPATH": str(d)}
        r0 = sh(["/venv/bin/python", str(dst / "demo.py")], cwd=d, env=env, timeout=900)
        meta["verified"]["demo_exit_unpatched"] = r0.returncode
        rp = sh(["patch", "-p1", "-s", "-i", str(dst / "patch.diff")], cwd=d)
        meta["verified"]["patch_applies"] = rp.returncode == 0
        if rp.returncode != 0:
            meta["verified"]["patch_error"] = (rp.stdout + rp.stderr)[-500:]
        if not a.skip_tests:
            rt = sh([str(ROOT / "tools" / "baseline.py"), str(d)])
            meta["verified"]["suite"] = rt.stdout.strip().splitlines()[0] if rt.stdout.strip() else "?"
            meta["verified"]["suite_passes"] = rt.returncode == 0
        r1 = sh(["/venv/bin/python", str(dst / "demo.py")], cwd=d, env=env, timeout=900)
        meta["verified"]["demo_exit_patched"] = r1.returncode
        meta["verified"]["demo_output_patched"] = (r1.stdout + r1.stderr).strip().splitlines()[-3:]
        checks = (a.checks.split(",") if a.checks else [a.prop])
        for pid in checks:
            for seed in a.seeds.split(","):
                t0 = time.monotonic()
                envc = {**os.environ, "VERIF_REPO": str(d), "VERIF_OUT": str(d / "_verif_out"), "VERIF_SEED": seed}
                r = sh([str(ROOT / "check"), pid, "--tier", a.tier], env=envc, cwd=ROOT)
                first = next((ln.strip() for ln in r.stdout.splitlines() if ln.strip().startswith("failure")), "")
                meta["checks"].setdefault(pid, []).append({"seed": int(seed), "tier": a.tier, "exit": r.returncode, "wall_s": round(time.monotonic() - t0, 1), "first_failure": first[:240]})
    finally:
        shutil.rmtree(d, ignore_errors=True)
    meta["ran"] = f"tools/verify_seeded.py {a.src} {a.sid} {a.prop} --checks {a.checks} --tier {a.tier} --seeds {a.seeds}"
    old = {}
    if (dst / "meta.json").exists():
        old = json.loads((dst / "meta.json").read_text())
        for k, v in old.get("checks", {}).items():
            meta["checks"].setdefault(k, [])
            meta["checks"][k] = v + [x for x in meta["checks"][k] if x not in v]
        for k in ("suite", "suite_passes"):
            if k not in meta["verified"] and k in old.get("verified", {}):
                meta["verified"][k] = old["verified"][k]
        for k in ("needs_to_manifest", "summary", "history"):
            if k in old:
                meta[k] = old[k]
    (dst / "meta.json").write_text(json.dumps(meta, indent=1))
    v = meta["verified"]
    det = {p: [("DETECTED" if x["exit"] == 1 else ("ERROR" if x["exit"] == 2 else "missed")) + f"@seed{x['seed']}({x['wall_s']}s)" for x in xs] for p, xs in meta["checks"].items()}
    print(f"{a.sid}: demo {v.get('demo_exit_unpatched')}->{v.get('demo_exit_patched')} suite={'PASS' if v.get('suite_passes') else v.get('suite')} checks={det}")
    return 0


if __name__ == "__main__":
    sys.exit(main())
