#!/venv/bin/python
"""Generate /verif/MANIFEST.json from the table below (keeps the file valid while checks are added)."""
from __future__ import annotations

import json
from pathlib import Path

ROOT = Path(__file__).resolve().parent.parent

CHECKS = {
    # id: (level, technique, level text, level note, design section)
    "C15": ("exploration",
            "exhaustive enumeration of small shapes x ranges + Hypothesis random shapes, against an independent DP oracle for the minimum slab count, view/partition predicates and FSDP-vs-HSDP differential",
            "Every shape of order 0..5 with numel<=24 (quick) / 48 (thorough) and every range is enumerated; beyond that random shapes up to dims 12. Each result is checked for view-ness, ordered partition, slab validity, minimal piece count (DP) and agreement of both copies.",
            "Trusts torch storage/offset introspection and the harness's own DP; no claim beyond the enumerated/random bounds.",
            "6/C15"),
}

PENDING_REASON = "check not built yet at this commit (work in progress; all eighteen properties are planned to be claimed, see DESIGN.md section 0)"


def main() -> None:
    props = [json.loads(l) for l in (ROOT / "properties.jsonl").read_text().splitlines() if l.strip()]
    checks = []
    na = []
    for p in props:
        pid = p["id"]
        if pid in CHECKS and (ROOT / "vf" / "props" / f"{pid.lower()}.py").exists():
            level, technique, text, note, ref = CHECKS[pid]
            checks.append({
                "property_id": pid,
                "quick_cmd": f"./check {pid} --tier quick",
                "thorough_cmd": f"./check {pid} --tier thorough",
                "evidence_file": f"evidence/{pid}.json",
                "replay_cmd_template": f"./check {pid} --replay {{path}}",
                "engine": "vf",
                "level_claimed": {"category": level, "text": text, "design_ref": f"DESIGN.md section {ref}"},
                "level_note": note,
                "technique": technique,
            })
        else:
            na.append({"property_id": pid, "reason": PENDING_REASON})
    manifest = {
        "version": 1,
        "setup_cmd": "./setup.sh",
        "hooks": {
            "guard": "SHAMPOO_VERIF",
            "enable": "no source hooks: checks import the working tree of /repo directly ($VERIF_REPO first on sys.path); observation and fault injection are done from the harness side with unittest.mock",
            "baseline_off_cmd": "cd /repo && /venv/bin/python -m pytest -ra -q -p no:cacheprovider --timeout=900 --continue-on-collection-errors",
            "source_commits": [],
            "add_only": True,
        },
        "engines": [{
            "name": "vf",
            "path": "vf/",
            "serves_properties": [c["property_id"] for c in checks],
            "kind_free_text": "property-based testing: Hypothesis (@given and rule-based state machines) plus exhaustive enumeration of small finite sub-domains, against independent reference models / round-trips / differentials; multi-rank behaviour through an in-process simulator on torch's threaded process group",
        }],
        "checks": checks,
        "notes": "Exit codes: 0 held (KNOWN-FINDING lines allowed), 1 VIOLATION, 2 harness error/inconclusive. VERIF_SEED seeds Hypothesis; VERIF_REPO overrides the tree under test (default /repo). known_findings.json lists open and fixed findings.",
        "not_applicable": na,
    }
    (ROOT / "MANIFEST.json").write_text(json.dumps(manifest, indent=1) + "\n")
    print(f"MANIFEST.json: {len(checks)} checks, {len(na)} not_applicable")


if __name__ == "__main__":
    main()
