#!/venv/bin/python
"""Generate /verif/MANIFEST.json from the table below (keeps the file valid while checks are added)."""
from __future__ import annotations

import json
from pathlib import Path

ROOT = Path(__file__).resolve().parent.parent

CHECKS = {
    # id: (level, technique, level text, level note, design section)
    "C15": ("exploration",
            "exhaustive enumeration of small shapes x ranges + Hypothesis random shapes, against an independent DP oracle for the minimum slab count, view/partition predicates and FSDP-vs-HSDP differential",
            "Every shape of order 0..5 with numel<=24 (quick) / 48 (thorough) and every range is enumerated; beyond that random shapes up to dims 64, zero-size shapes, strided shards, and an enumeration of every trailing slab size 2..1100 on tensors of ~3.5M elements with ranges ending on slab boundaries. Each result is checked for view-ness, ordered partition, slab validity, minimal piece count (DP) and agreement of both copies.",
            "Trusts torch storage/offset introspection and the harness's own DP; no claim beyond the enumerated/random bounds.",
            "6/C15"),
    "C01": ("exploration",
            "Hypothesis rule-based state machine over a live optimizer, checked after every step against an independent float64 one-step-ahead reference model computed from the optimizer's own previous state, plus bitwise held-fixed invariants and a multi-group vs independent-optimizers metamorphic differential",
            "Generated histories (configuration x shapes x gradient/mask/schedule sequence, incl. mixed parameter dtypes per group, tensor-valued learning rates edited in place and rollbacks of a checkpoint into the live optimizer) are run through the real optimizer; every block's factor matrices, filtered gradient, grafting accumulator, momentum and parameter delta are compared with the documented recurrences within a stated running rounding bound, inverse roots with a float64 spectral oracle on refresh steps and bitwise otherwise. Exploration, not proof: bounded orders/sizes/history lengths.",
            "Trusts the harness's reference model (written from the docstring/README, no repository imports) and float64 torch.linalg; iterative solvers' accuracy is decided in C10, not here.",
            "6/C01"),
    "C03": ("exploration",
            "Hypothesis rule-based state machine over SOAP optimizers; validity predicates on every stored eigenbasis (orthonormal, diagonalising / orthogonal-iteration update of the previous basis up to signs, refresh schedule; with injected torch.linalg.qr failures a failed factor must keep its previous basis bitwise) plus the one-step-ahead SOAP reference for corrected eigenvalues and parameter updates",
            "Every refresh of every generated history is checked for a valid basis in all dtype pairings; all other steps must leave bases bitwise unchanged; each step's accumulator and update must match Adam in the stored rotated coordinates within the stated rounding bound.",
            "Reference model and float64 QR/eigh trusted; the QR comparison is informative only while n*u*prod(cond) stays small (reported per run).",
            "6/C03"),
    "C04": ("exploration",
            "Hypothesis rule-based state machine over gradient-presence histories with forced equal-shaped parameters; bitwise untouched-state invariant after every step, step-counter model, and per-block one-step-ahead reference to expose cross-wired buffers",
            "Histories of presence masks (stay/flip/swap/random/all-absent/all-present, momentum scheduled to zero and back) over parameter sets where misalignment would not raise; invariants are bitwise. Extra streams: groups with hundreds of blocks or > 64 parameters, and 'marathon' histories with more than a thousand consecutive presence changes, every step checked.",
            "Reference model of C01; reachability walk covers dicts, sequences and module-like state objects.",
            "6/C04"),
    "C13": ("fault_enumeration",
            "model-based fault injection: Hypothesis state machine drives the real optimizer while the matrix routine is wrapped from the harness; an outcome script (ok/raise before the routine/raise at the j-th LAPACK call inside the routine/NaN/Inf) per factor per refresh is checked against a per-block failure-counter model; invariants on raise (no parameter modified) and on stored matrices (finite)",
            "For every generated history of gradient-presence masks and outcome scripts the predicted raise/no-raise and exception type must match at every step; tolerated failures must keep the previous matrix bitwise, store the successful ones, and log a warning naming the factor. Fault scripts are enumerated by generation, not exhaustively.",
            "Fault injection by unittest.mock on the names imported into shampoo_preconditioner_list; call order = parameters, blocks, factors of blocks with a gradient.",
            "6/C13"),
    "C09": ("fault_enumeration",
            "round-trip differential with enumerated crash points: for every stop step k of every generated history the saved (torch.save/load) distributed state dict is loaded into a fresh optimizer and the continuation is compared bitwise with the uninterrupted run; negative loads must raise",
            "Every crash point k = 0..T of each generated history (configuration x gradient/mask/schedule sequence) is exercised; parameters and all state tensors must be bit-for-bit equal after every remaining step; structural key-count check; four kinds of corrupted checkpoints (missing entry, missing sub-tree, unknown parameter, different group partition) must be rejected; crash points up to 2053 steps for half-precision parameters.",
            "Serial (non-DTensor) state layout; torch.save/load assumed bit-exact; the DDP/DTensor layout is exercised by the simulator-based checks.",
            "6/C09"),
    "C16": ("exploration",
            "Hypothesis recursive strategies for nested dicts / OptimizerModule object graphs; round-trip (unflatten . flatten = prune-leafless), injectivity count, reachability-set equality, in-place load (tensor identity and storage) and consumer round-trip through update_param_state_dict_object",
            "Tens of thousands of generated structures with adversarial keys (quotes, brackets, separators, JSON-looking strings, int vs digit-string) and leafless sub-dicts; module graphs mixing tensors, modules, dicts, lists, tuples and non-tensors.",
            "Sets are not generated; keys are valid unicode text (no lone surrogates) or integers.",
            "6/C16"),
    "C14": ("exploration",
            "Hypothesis lists of block sizes x group sizes plus an exhaustively enumerated palette grid, against a naive list-scheduling reference model, independent balance predicates with an exact branch-and-bound optimum, a three-way differential between the DDP/HSDP/HybridShard copies, and byte-interval predicates on the buffer views",
            "The assignment must equal the naive largest-first/least-loaded/lowest-rank reference exactly; spread and 4/3-OPT bounds are checked independently; buffer views must be aligned, inside the owner's segment and disjoint. Simulator-side ownership checks are part of the C06-C08 worlds.",
            "Methods are called unbound on a stub carrying only the group size; exact optimum only for <= 11 blocks.",
            "6/C14"),
    "C17": ("exploration",
            "exhaustive 1- and 2-at-a-time value grid (interior, boundary, nextafter-outside, far outside, NaN, inf) around three baselines plus Hypothesis k-at-a-time cross product, against an acceptance predicate written from the documentation; config-class tables for grafting / preconditioner / unsupported types",
            "Every grid combination is constructed; acceptance must equal the documented predicate, rejection must be ValueError (NotImplementedError for unsupported config types), and the -1 defaults must be resolved as documented.",
            "The predicate `accept` in vf/props/c17.py is the documented domain; value tables are finite.",
            "6/C17"),
    "C05": ("exploration",
            "exhaustive small-shape grid + Hypothesis shapes for the structural validity predicate (views, exact cover, row-major order, size limit, merge rule as a predicate, gradient blocks) and a metamorphic differential (blocked tensor vs pre-split blocks as separate parameters) over generated histories",
            "Structure is checked on arange-filled parameters through the real Distributor; the metamorphic relation runs both optimizers on the same history and compares per block within a stated, conditioning-aware rounding bound.",
            "Reference block enumeration is the harness's own; metamorphic comparison becomes uninformative (reported) when the amortized computation is ill-conditioned.",
            "6/C05"),
    "C02": ("exploration",
            "differential against torch.optim SGD/Adagrad/RMSprop/Adam/AdamW over generated hyperparameters, shapes, blockings and presence patterns; validity predicate for the norm transfer (update norm = lr * grafted norm, cosine 1 with the Shampoo direction) recomputed from stored state",
            "Trajectories must agree with PyTorch's own optimizers within a path-length-relative bound during warm-up; after the start step every block's update norm and direction are checked.",
            "Domain restricted to where both formulations are mathematically identical (dampening 0, all-or-nothing presence for bias-corrected / momentum variants).",
            "6/C02"),
    "C10": ("exploration",
            "Hypothesis-generated spectra x bases x roots x dtypes x solver configs with hypothesis.target() on error/bound, against a float64 / 50-digit (mpmath) spectral reference of the actual input; solver-flag => residual implication checked through the solvers' own entry points",
            "Every returned root is compared with the spectral reference within the stated n*u*cond bound (uninformative cases reported, not asserted); diagonal and 1x1 fast paths against the general path; CONVERGED => tolerance met and independent residual small; higher-order solver returns only results within its guard.",
            "float64 eigh / mpmath.eigsy trusted; n <= 32 quick, <= 128 thorough.",
            "6/C10"),
    "C11": ("exploration",
            "Hypothesis-generated degenerate symmetric matrices (zero, rank-deficient, repeated and slightly negative eigenvalues); algebraic laws as oracle (finite, symmetric, lambda_max cap, SPD, commutation, orthogonal equivariance as a metamorphic relation) and shape fuzzing for rejection",
            "Each law is asserted at its backward-error level with K=64; epsilon is kept at or above the dtype resolution of the scale, as the property states.",
            "Laws are necessary conditions; accuracy itself is C10.",
            "6/C11"),
    "C12": ("exploration",
            "Hypothesis-generated PSD matrices x estimates x QR settings; validity predicates (orthonormal, diagonalising, ascending Rayleigh quotients), bitwise fallback differential (QR with zero estimate vs eigh), and a float64 reference orthogonal iteration admitting every iteration count with a conditioning-aware deviation bound; fixed-point law for exact eigenbases",
            "Unconditional predicates always; identity of the QR basis only where n*u*prod(cond) keeps the comparison meaningful (fraction reported).",
            "float64 QR/eigh reference; sign and iteration-count ambiguity resolved as described in DESIGN C12.",
            "6/C12"),
    "C06": ("exploration",
            "in-process multi-rank simulation (torch threaded process group, harness-owned rendezvous gates and deadlock monitor) over Hypothesis-generated worlds and histories; bitwise differential against the single-process optimizer (rounding-shim oracle for reduced-precision communication), replica agreement, trace invariants on collective and process-group-creation sequences",
            "Every simulated rank's parameters are compared bitwise with the serial optimizer after every step; collective sequences (T1) and new_group waves (T2) are checked on recorded traces; a rank left waiting is detected deterministically. Timing independence is discharged through T1/T2 as a sufficient condition, not by replaying real backend races.",
            "Thread backend on CPU; world sizes <= 4 quick / 8 thorough; open findings F5, F6, F10 excluded by construction (counted) and kept visible by directed probes.",
            "5, 6/C06"),
    "C07": ("exploration",
            "simulated shard ranks over flat-parameter shards with generated boundaries (mid-row, empty); bitwise differential against the single-process optimizer on the reference decomposition's sub-tensors; for HSDP additionally replica agreement, trace invariants and deadlock monitor",
            "Each rank's flat shards must be bitwise the serial result on independently recovered sub-tensors after every step; parameters with an empty local shard must own no state.",
            "Flat-parameter sharding model of the harness (concatenate, equal chunks); reference decomposition certified minimal by C15; simulator assumptions of C06.",
            "5, 6/C07"),
    "C08": ("exploration",
            "simulated ranks over dim-0 sharded DTensor parameters (uneven and empty local shards, 1-D and 2-D meshes); bitwise differential against the single-process optimizer on each rank's local tensors; HybridShard: replica agreement, trace invariants, deadlock monitor",
            "param.to_local() on every rank after every step must be bitwise the serial result; empty local shards carry no state; absent DTensor gradients are absent.",
            "DTensor.from_local with explicit global shape/stride stands in for fully_shard / distribute_tensor; simulator assumptions of C06.",
            "5, 6/C08"),
    "C18": ("exploration",
            "differential compiled-vs-eager over Hypothesis-generated configurations and histories (eager and aot_eager backends, static/dynamic/auto shape modes and a DDP-distributor stream on the simulator) on parameters and all state after every step (integer state bitwise, floating point within 64 ulp x conditioning), with a dynamo-counter guard against vacuity",
            "Both optimizers run the same history; any difference in parameters or state beyond the stated re-rounding tolerance (torch.compile rewrites add_(alpha=) and decomposes fused in-place ops: single-ulp differences exist on the unchanged tree), or a difference in raising, is a violation. Cases in which torch's AOTAutograd rejects the graph (aliased mutated inputs under dynamic shapes) are excluded and counted.",
            "torch 2.5.1 CPU; inductor is outside the property's premise; dynamo counters trusted for the 'really compiled' guard.",
            "6/C18"),
}

PENDING_REASON = "check not built yet at this commit"


def main() -> None:
    props = [json.loads(l) for l in (ROOT / "properties.jsonl").read_text().splitlines() if l.strip()]
    checks = []
    na = []
    for p in props:
        pid = p["id"]
        if pid in CHECKS and (ROOT / "vf" / "props" / f"{pid.lower()}.py").exists():
            level, technique, text, note, ref = CHECKS[pid]
            checks.append({
                "property_id": pid,
                "quick_cmd": f"./check {pid} --tier quick",
                "thorough_cmd": f"./check {pid} --tier thorough",
                "evidence_file": f"evidence/{pid}.json",
                "replay_cmd_template": f"./check {pid} --replay {{path}}",
                "engine": "vf",
                "level_claimed": {"category": level, "text": text, "design_ref": f"DESIGN.md section {ref}"},
                "level_note": note,
                "technique": technique,
            })
        else:
            na.append({"property_id": pid, "reason": PENDING_REASON})
    manifest = {
        "version": 1,
        "setup_cmd": "./setup.sh",
        "hooks": {
            "guard": "SHAMPOO_VERIF",
            "enable": "no source hooks: checks import the working tree of /repo directly ($VERIF_REPO first on sys.path); observation and fault injection are done from the harness side with unittest.mock",
            "baseline_off_cmd": "cd /repo && /venv/bin/python -m pytest -ra -q -p no:cacheprovider --timeout=900 --continue-on-collection-errors",
            "source_commits": [],
            "add_only": True,
        },
        "engines": [{
            "name": "vf",
            "path": "vf/",
            "serves_properties": [c["property_id"] for c in checks],
            "kind_free_text": "property-based testing: Hypothesis (@given and rule-based state machines) plus exhaustive enumeration of small finite sub-domains, against independent reference models / round-trips / differentials; multi-rank behaviour through an in-process simulator on torch's threaded process group",
        }],
        "checks": checks,
        "notes": "Exit codes: 0 held (KNOWN-FINDING lines allowed), 1 VIOLATION, 2 harness error/inconclusive. VERIF_SEED seeds Hypothesis; VERIF_REPO overrides the tree under test (default /repo). known_findings.json lists open and fixed findings.",
        "not_applicable": na,
    }
    (ROOT / "MANIFEST.json").write_text(json.dumps(manifest, indent=1) + "\n")
    print(f"MANIFEST.json: {len(checks)} checks, {len(na)} not_applicable")


if __name__ == "__main__":
    main()
