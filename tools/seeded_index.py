#!/venv/bin/python
"""Regenerate seeded/INDEX.md from seeded/*/meta.json (summary / needs_to_manifest / history are hand-written fields of meta.json)."""
import json
from pathlib import Path

ROOT = Path(__file__).resolve().parent.parent
rows = []
for d in sorted((ROOT / "seeded").iterdir()):
    mf = d / "meta.json"
    if not mf.exists():
        continue
    m = json.loads(mf.read_text())
    v = m.get("verified", {})
    checks = []
    for pid, xs in m.get("checks", {}).items():
        for x in xs:
            checks.append(f"{pid}:{'detected' if x['exit'] == 1 else ('ERROR' if x['exit'] == 2 else 'missed')}@seed{x['seed']} ({x['wall_s']}s{', harness ' + x['harness'] if x.get('harness') else ''})")
    esc = lambda t: str(t or "").replace("|", "\\|").replace("\n", " ")
    rows.append(f"| {m['id']} | {m['property']} | {esc(m.get('summary'))} | {esc(m.get('needs_to_manifest'))} | {'pass' if v.get('suite_passes') else esc(v.get('suite'))} | "
                f"{v.get('demo_exit_unpatched')}→{v.get('demo_exit_patched')} | {'; '.join(checks)} | {esc(m.get('history'))} |")
head = """# Seeded changes written by independent sub-agents

Each change was written by a fresh sub-agent that saw only the text of one property and its own scratch git worktree of the repository (nothing from /verif).
Every change was re-verified here with `tools/verify_seeded.py` on scratch copies (removed afterwards): the demonstration exits 0 on the unmodified tree and non-zero with the patch, the pinned 165-test suite still passes with the patch, and the named quick checks were run against the patched copy.
`detected` = the check exits 1 with a VIOLATION line. Rows list every recorded run in order, so a `missed` followed by `detected` for the same seed is a before/after pair (see the note column). Wall times were measured while agents and background runs shared the 16 cores (idle-machine times are 2-4x shorter).
Suffix A/B = round 1 (two per property), H = round 2 ("hard mode": written to evade a generic random harness), J/K = round 3 (hard mode with a prescribed clause of the property), L = round 4 (the same with a third clause).

| id | property | change | needs, in order to manifest | suite | demo | checks (quick tier) | note |
|---|---|---|---|---|---|---|---|
"""
(ROOT / "seeded" / "INDEX.md").write_text(head + "\n".join(rows) + "\n")
print(len(rows), "rows")
