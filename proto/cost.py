import time, torch, logging
from distributed_shampoo.distributed_shampoo import DistributedShampoo
from distributed_shampoo.shampoo_types import AdamGraftingConfig
logging.disable(logging.CRITICAL)
torch.set_num_threads(1)
def case(dtype):
    gen = torch.Generator().manual_seed(0)
    shapes = [(6,4),(5,),(3,3,2),(7,2),()]
    ps = [torch.nn.Parameter(torch.randn(s, generator=gen, dtype=dtype)) for s in shapes]
    opt = DistributedShampoo(ps, lr=0.01, betas=(0.9,0.99), epsilon=1e-6, momentum=0.5, max_preconditioner_dim=3, precondition_frequency=2, start_preconditioning_step=2, grafting_config=AdamGraftingConfig(), preconditioner_dtype=dtype)
    for t in range(8):
        for p in ps: p.grad = torch.randn(p.shape, generator=gen, dtype=dtype)
        opt.step()
for dt in (torch.float32, torch.float64):
    t=time.time(); n=50
    for _ in range(n): case(dt)
    print(dt, (time.time()-t)/n*1000, "ms per case (5 params, 8 steps, ~20 blocks)")
