import torch, sys
from fractions import Fraction
from matrix_functions import matrix_inverse_root
from matrix_functions_types import EigenConfig
g = torch.tensor([65.364, -17.053])
A = torch.outer(g, g)                      # rank-1 factor matrix, as after one gradient step
bad = 0
for stab in (False, True):
    for seed in range(200):
        torch.manual_seed(seed); g = torch.randn(3) * 30; A = torch.outer(g, g)
        X = matrix_inverse_root(A, Fraction(2), EigenConfig(enhance_stability=stab), epsilon=1e-12)
        if not torch.isfinite(X).all(): bad += 1; 
    print("enhance_stability", stab, "non-finite results:", bad, "of 200"); 
sys.exit(1 if bad else 0)
