import sys, torch, logging, copy
sys.path.insert(0, "/tmp/exp")
from sim2 import run_world
from distributed_shampoo.distributed_shampoo import DistributedShampoo
from distributed_shampoo.shampoo_types import DDPShampooConfig, AdaGradGraftingConfig
from torch.distributed.tensor import DTensor
logging.disable(logging.CRITICAL)
shapes = [(6,4),(5,),(3,3,2),(7,2)]; T = 6; K = int(sys.argv[3]) if len(sys.argv) > 3 else 3
kw = dict(lr=0.01, betas=(0.9,0.99), epsilon=1e-8, momentum=0.5, max_preconditioner_dim=3, precondition_frequency=2, start_preconditioning_step=2, grafting_config=AdaGradGraftingConfig(epsilon=1e-8))
def fn_factory(W, G):
    def fn(rank, world):
        gen = torch.Generator().manual_seed(0)
        P = [torch.randn(s, generator=gen) for s in shapes]; Gs = [[torch.randn(s, generator=gen) for s in shapes] for _ in range(T)]
        cfg = lambda: DDPShampooConfig(num_trainers_per_group=G)
        named = lambda ps: iter([(f"p{i}", p) for i, p in enumerate(ps)])
        a = [torch.nn.Parameter(p.clone()) for p in P]; A = DistributedShampoo(a, distributed_config=cfg(), **kw)
        def step(opt, ps, t):
            for p, g in zip(ps, Gs[t]): p.grad = g.clone()
            opt.step()
        for t in range(K): step(A, a, t); world.barrier(("A", t))
        sd = A.distributed_state_dict(key_to_param=named(a))
        kinds = sorted({type(v).__name__ for d in sd["state"].values() for v in d.values()})
        sd2 = {"state": {pk: {k: v.clone() for k, v in d.items()} for pk, d in sd["state"].items()}, "param_groups": copy.deepcopy(sd["param_groups"])}
        b = [torch.nn.Parameter(p.detach().clone()) for p in a]; B = DistributedShampoo(b, distributed_config=cfg(), **kw)
        B.load_distributed_state_dict(sd2, key_to_param=named(b))
        ok = True
        for t in range(K, T):
            step(A, a, t); world.barrier(("A", t)); step(B, b, t); world.barrier(("B", t))
            ok &= all(torch.equal(x, y) for x, y in zip(a, b))
            sa = A.distributed_state_dict(key_to_param=named(a))["state"]; sb = B.distributed_state_dict(key_to_param=named(b))["state"]
            for pk in sa:
                for k in sa[pk]:
                    x, y = sa[pk][k], sb[pk][k]
                    x = x.to_local() if isinstance(x, DTensor) else x; y = y.to_local() if isinstance(y, DTensor) else y
                    ok &= torch.equal(x, y)
        return ok, kinds, sum(len(d) for d in sd["state"].values())
    return fn
W, G = int(sys.argv[1]), int(sys.argv[2])
res, errs, alive, world = run_world(W, fn_factory(W, G), join_timeout=30)
print("alive", alive, "deadlock", world.deadlock)
for r, e in errs.items(): print("ERR", r, e[-1200:])
for r, x in enumerate(res): print(r, x)
