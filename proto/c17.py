import itertools, math, torch, logging
from distributed_shampoo.distributed_shampoo import DistributedShampoo
from distributed_shampoo.shampoo_types import *
logging.disable(logging.CRITICAL)
nan, inf = float("nan"), float("inf")
na = math.nextafter
tables = dict(
  lr=[0.0, -0.0, na(0.0,-1), -1.0, 1e-2, 1.0, 10.0, inf, nan, -inf],
  beta1=[0.0, na(0.0,-1), -0.1, 0.5, na(1.0,0), 1.0, 1.5, nan],
  beta2=[0.0, na(0.0,1), 0.5, 1.0, na(1.0,2), -0.1, nan, 2.0],
  beta3=[-1.0, 0.0, na(0.0,-1), 0.5, na(1.0,0), 1.0, -0.5, -2.0, nan, 1.5],
  epsilon=[0.0, na(0.0,1), 1e-12, 1.0, -1e-12, nan, inf],
  momentum=[0.0, na(0.0,-1), 0.5, na(1.0,0), 1.0, -0.5, nan],
  dampening=[0.0, na(0.0,-1), 0.5, na(1.0,0), 1.0, -0.5, nan],
  weight_decay=[0.0, na(0.0,-1), 0.1, 10.0, -1.0, nan, inf],
  max_preconditioner_dim=[1, 0, -1, 2, 1024],
  precondition_frequency=[1, 0, -1, 2, 5],
  start_preconditioning_step=[-1, -2, 0, 1, 2, 5, 6, inf],
  inv_root_override=[0, 1, 4, -1, [], [0], [1,2], [2,-1], [0,0,3]],
)
def predicate(k):
    ok = True
    ok &= k["lr"] >= 0
    ok &= 0 <= k["beta1"] < 1
    ok &= 0 < k["beta2"] <= 1
    ok &= (k["beta3"] == -1) or (0 <= k["beta3"] < 1)
    ok &= k["epsilon"] > 0
    ok &= 0 <= k["momentum"] < 1
    ok &= 0 <= k["dampening"] < 1
    ok &= k["weight_decay"] >= 0
    ok &= k["max_preconditioner_dim"] >= 1
    ok &= k["precondition_frequency"] >= 1
    s = k["start_preconditioning_step"]
    ok &= (s == -1) or (s >= k["precondition_frequency"])
    o = k["inv_root_override"]
    ok &= all(e >= 0 for e in o) if isinstance(o, list) else o >= 0
    return bool(ok)
base = dict(lr=0.01, beta1=0.9, beta2=0.99, beta3=-1.0, epsilon=1e-8, momentum=0.0, dampening=0.0, weight_decay=0.0, max_preconditioner_dim=8, precondition_frequency=2, start_preconditioning_step=-1, inv_root_override=0)
def construct(k):
    p = torch.nn.Parameter(torch.zeros(3,2))
    kw = {x: k[x] for x in k if x not in ("beta1","beta2")}
    return DistributedShampoo([p], betas=(k["beta1"], k["beta2"]), **kw)
n=0; bad=0
names = list(tables)
def trial(k):
    global n, bad
    n += 1
    exp = predicate(k)
    try:
        o = construct(k); got = True; err=None
    except ValueError as e: got = False; err=e
    except Exception as e: got = None; err=e
    if got is not exp:
        bad += 1
        if bad < 20: print("MISMATCH", {x: k[x] for x in k if k[x] != base[x]}, "expected accept" if exp else "expected reject", "got", got, type(err).__name__ if err else "", str(err)[:80] if err else "")
    elif got:
        g = o.param_groups[0]
        b3 = k["beta1"] if k["beta3"] == -1 else k["beta3"]
        st = k["precondition_frequency"] if k["start_preconditioning_step"] == -1 else k["start_preconditioning_step"]
        if not (g["beta3"] == b3 and g["start_preconditioning_step"] == st):
            bad += 1; print("DEFAULT MISMATCH", k, g["beta3"], g["start_preconditioning_step"])
for a in names:
    for va in tables[a]:
        trial({**base, a: va})
for a, b in itertools.combinations(names, 2):
    for va in tables[a]:
        for vb in tables[b]:
            trial({**base, a: va, b: vb})
print("cases", n, "mismatches", bad)
