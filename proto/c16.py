import torch, logging, copy
from hypothesis import given, settings, strategies as st, HealthCheck, seed
from distributed_shampoo.utils.shampoo_checkpoint_utils import flatten, unflatten, update_param_state_dict_object, extract_state_dict_content
from optimizer_modules import OptimizerModule
logging.disable(logging.CRITICAL)
keys = st.one_of(st.text(max_size=6), st.integers(-5, 5), st.sampled_from(['"', '\\', '[', ']', '["a"]', '1', 'a/b', 'a.b', '', ' ']))
leaf = st.builds(lambda x: torch.tensor(float(x)), st.integers(0, 100))
tree = st.recursive(st.dictionaries(keys, leaf, max_size=3), lambda ch: st.dictionaries(keys, st.one_of(leaf, ch), max_size=3), max_leaves=12)
def prune(d):
    out = {}
    for k, v in d.items():
        if isinstance(v, dict):
            pv = prune(v)
            if pv: out[k] = pv
        else: out[k] = v
    return out
def count(d): return sum(count(v) if isinstance(v, dict) else 1 for v in d.values())
def same(a, b):
    if isinstance(a, dict):
        return isinstance(b, dict) and list(map(lambda k: (type(k), k), sorted(a, key=repr))) == list(map(lambda k: (type(k), k), sorted(b, key=repr))) and all(same(a[k], b[k]) for k in a)
    return a is b
@seed(1)
@settings(max_examples=5000, deadline=None, database=None, suppress_health_check=list(HealthCheck))
@given(tree)
def test_flat(d):
    f = flatten(d)
    assert all(isinstance(k, str) for k in f)
    assert len(f) == count(d), (d, f)
    u = unflatten(f)
    assert same(u, prune(d)), (d, u)
test_flat(); print("flatten ok")

class M(OptimizerModule):
    def __init__(self, **kw): self.__dict__.update(kw)
val = st.deferred(lambda: st.one_of(leaf, st.integers(), st.text(max_size=3), st.lists(val, max_size=3), st.lists(val, max_size=3).map(tuple), st.dictionaries(st.text(max_size=3), val, max_size=3), st.dictionaries(st.sampled_from("abc"), val, max_size=3).map(lambda d: M(**d))))
mod = st.dictionaries(st.sampled_from("abcde"), val, max_size=4).map(lambda d: M(**d))
def tensors(o, acc):
    if isinstance(o, torch.Tensor): acc.append(o)
    elif isinstance(o, OptimizerModule): [tensors(v, acc) for v in o.__dict__.values()]
    elif isinstance(o, dict): [tensors(v, acc) for v in o.values()]
    elif isinstance(o, (list, tuple)): [tensors(v, acc) for v in o]
    return acc
def sd_tensors(d, acc):
    for v in d.values():
        if isinstance(v, torch.Tensor): acc.append(v)
        elif isinstance(v, dict): sd_tensors(v, acc)
    return acc
def clone_struct(o):
    if isinstance(o, torch.Tensor): return o.clone() + 1000
    if isinstance(o, M): return M(**{k: clone_struct(v) for k, v in o.__dict__.items()})
    if isinstance(o, dict): return {k: clone_struct(v) for k, v in o.items()}
    if isinstance(o, (list, tuple)): return type(o)(clone_struct(v) for v in o)
    return o
@seed(1)
@settings(max_examples=3000, deadline=None, database=None, suppress_health_check=list(HealthCheck))
@given(mod)
def test_mod(m):
    ts = tensors(m, [])
    sd = m.state_dict()
    st_ = sd_tensors(sd, [])
    assert sorted(t.data_ptr() for t in st_) == sorted(t.data_ptr() for t in ts), "reachability"
    src = clone_struct(m)
    ids = [id(t) for t in ts]; types = {k: type(v) for k, v in m.__dict__.items()}
    m.load_state_dict(src.state_dict())
    ts2 = tensors(m, [])
    assert [id(t) for t in ts2] == ids, "tensor objects replaced"
    assert all(torch.equal(a, b) for a, b in zip(ts2, tensors(src, []))), "values"
    assert {k: type(v) for k, v in m.__dict__.items()} == types
test_mod(); print("module ok")
