import itertools, torch, logging, sys
sys.path.insert(0, "/tmp/exp")
from hypothesis import given, settings, strategies as st, HealthCheck, seed
from c09 import cfg, build, shape_st
from ref_proto import ref_blocks
logging.disable(logging.CRITICAL); torch.set_num_threads(1)
worst = [0.0]; bitwise = [0, 0]
@seed(2)
@settings(max_examples=300, deadline=None, database=None, suppress_health_check=list(HealthCheck))
@given(cfg, st.lists(st.lists(st.integers(1, 7), min_size=0, max_size=4).map(tuple), min_size=1, max_size=3), st.integers(0, 10**6), st.integers(2, 6), st.sampled_from([torch.float32, torch.float64]))
def test(c, shapes, sd_, T, dt):
    if c["soap"] == "qr": dt = torch.float32  # step around F2 in this prototype
    gen = torch.Generator().manual_seed(sd_)
    P0 = [torch.randn(s, generator=gen, dtype=dt) for s in shapes]
    G = [[torch.randn(s, generator=gen, dtype=dt) for s in shapes] for _ in range(T)]
    psA = [torch.nn.Parameter(p.clone()) for p in P0]; A = build(psA, c)
    layout = [ref_blocks(s, c["mpd"], c["merge"]) for s in shapes]
    psB = [torch.nn.Parameter(P0[i].view(md)[sl].clone().contiguous()) for i, (md, sls) in enumerate(layout) for sl in sls]
    cB = dict(c); cB["merge"] = False; cB["mpd"] = 10**6
    B = build(psB, cB)
    for t in range(T):
        for p, g in zip(psA, G[t]): p.grad = g.clone()
        gb = [G[t][i].view(md)[sl].clone().contiguous() for i, (md, sls) in enumerate(layout) for sl in sls]
        for p, g in zip(psB, gb): p.grad = g
        A.step(); B.step()
        j = 0
        for i, (md, sls) in enumerate(layout):
            for sl in sls:
                a = psA[i].detach().view(md)[sl]; b = psB[j].detach(); j += 1
                bitwise[0] += 1; bitwise[1] += int(torch.equal(a, b))
                worst[0] = max(worst[0], ((a-b).norm()/(b.norm()+1e-30)).item()/torch.finfo(dt).eps)
test(); print("C05 metamorphic: worst rel diff in eps units", worst, "bitwise equal blocks", bitwise)
