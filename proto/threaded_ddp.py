import sys, threading, time, traceback
import torch, torch.distributed as dist
import torch.distributed.distributed_c10d as c10d
from torch.testing._internal.distributed.multi_threaded_pg import _install_threaded_pg, _uninstall_threaded_pg, ProcessLocalGroup
from distributed_shampoo.distributed_shampoo import DistributedShampoo
from distributed_shampoo.shampoo_types import DDPShampooConfig, AdaGradGraftingConfig, CommunicationDType
from distributed_shampoo.utils import shampoo_dist_utils

def run_world(world_size, fn):
    world = _install_threaded_pg()
    torch._C._distributed_c10d._set_thread_isolation_mode(True)
    store = dist.HashStore()
    results = [None]*world_size
    errors = []
    def worker(rank):
        try:
            c10d.init_process_group(backend="threaded", rank=rank, world_size=world_size, store=store)
            results[rank] = fn(rank)
        except BaseException as e:
            errors.append((rank, traceback.format_exc()))
            ProcessLocalGroup.exception_handle(e)
        finally:
            try: c10d.destroy_process_group()
            except Exception: pass
    ths = [threading.Thread(target=worker, args=(r,)) for r in range(world_size)]
    [t.start() for t in ths]; [t.join(60) for t in ths]
    alive = [t.is_alive() for t in ths]
    torch._C._distributed_c10d._set_thread_isolation_mode(False)
    _uninstall_threaded_pg()
    ProcessLocalGroup.reset()
    return results, errors, alive

def make(rank, G, W):
    gen = torch.Generator().manual_seed(0)
    shapes = [(6,4),(5,),(3,3,2),(7,2)]
    params = [torch.nn.Parameter(torch.randn(s, generator=gen)) for s in shapes]
    grads = [[torch.randn(s, generator=gen) for s in shapes] for _ in range(5)]
    return params, grads

def fn_factory(W, G, dist_cfg=True):
    def fn(rank):
        shampoo_dist_utils.get_device_mesh.cache_clear() if rank==0 else None
        params, grads = make(rank, G, W)
        cfg = DDPShampooConfig(num_trainers_per_group=G, communicate_params=False) if dist_cfg else None
        opt = DistributedShampoo(params, lr=0.01, betas=(0.9,1.0), epsilon=1e-8, momentum=0.5, max_preconditioner_dim=3,
            precondition_frequency=1, start_preconditioning_step=2, grafting_config=AdaGradGraftingConfig(epsilon=1e-8), distributed_config=cfg)
        for g in grads:
            for p, gg in zip(params, g): p.grad = gg.clone()
            opt.step()
        return [p.detach().clone() for p in params]
    return fn

if __name__ == "__main__":
    W = int(sys.argv[1]); G = int(sys.argv[2])
    serial = fn_factory(1, 1, dist_cfg=False)(0)
    t=time.time()
    res, errs, alive = run_world(W, fn_factory(W, G))
    print("time", time.time()-t, "alive", alive)
    for r, e in errs: print("ERR rank", r, e[-1500:])
    for r in range(W):
        if res[r] is not None:
            print(r, [torch.equal(a,b) for a,b in zip(res[r], serial)], max((a-b).abs().max().item() for a,b in zip(res[r], serial)))
