import torch, logging
from fractions import Fraction
from matrix_functions import matrix_inverse_root, _matrix_inverse_root_newton, _matrix_inverse_root_higher_order, matrix_eigenvectors
from matrix_functions_types import *
logging.disable(logging.CRITICAL)
torch.manual_seed(0)
# error vs bound for eigen path
for dt in (torch.float32, torch.float64):
    u = torch.finfo(dt).eps/2
    worst = 0
    for n in (2, 8, 32, 128):
        for cond in (1e1, 1e3, 1e5):
            Q, _ = torch.linalg.qr(torch.randn(n, n, dtype=torch.float64))
            lam = torch.logspace(0, -torch.log10(torch.tensor(cond)).item(), n, dtype=torch.float64)
            A = (Q*lam)@Q.T; A = (A+A.T)/2
            eps = 0.0
            Ad = A.to(dt)
            for root in (Fraction(2), Fraction(4), Fraction(8,3)):
                X = matrix_inverse_root(Ad, root, epsilon=1e-12).double()
                L, V = torch.linalg.eigh(Ad.double()); L = L - min(L.min().item(),0) + 1e-12
                Xr = (V*L.pow(-1/float(root)))@V.T
                err = (torch.linalg.matrix_norm(X-Xr, 2)/torch.linalg.matrix_norm(Xr, 2)).item()
                k = (L.max()/L.min()).item()
                worst = max(worst, err/(n*u*k))
    print(dt, "max err/(n u kappa) eigen:", worst)
# newton / higher order flags
A = torch.diag(torch.tensor([1.0, 0.5, 0.01])); A[0,1]=A[1,0]=0.1
print(_matrix_inverse_root_newton(A, 2, 1e-6)[2:], _matrix_inverse_root_higher_order(A, Fraction(2), abs_epsilon=1e-6, tolerance=1e-8)[2:])
import time, mpmath
mpmath.mp.dps = 50
t=time.time(); M = mpmath.matrix(A.double().tolist()); E, Qm = mpmath.eigsy(M); print("mpmath eigsy 3x3", time.time()-t)
n=16; B = torch.randn(n,n,dtype=torch.float64); B = B@B.T
t=time.time(); E, Qm = mpmath.eigsy(mpmath.matrix(B.tolist())); print("mpmath eigsy 16x16 s:", time.time()-t)
