import io, copy, torch, logging
from hypothesis import given, settings, strategies as st, HealthCheck, seed
from distributed_shampoo.distributed_shampoo import DistributedShampoo
from distributed_shampoo.shampoo_types import *
from matrix_functions_types import *
logging.disable(logging.CRITICAL); torch.set_num_threads(1)
shape_st = st.lists(st.integers(1, 5), min_size=1, max_size=3).map(tuple)
graft = st.sampled_from([None, "sgd", "adagrad", "rmsprop", "adam"])
def mk_graft(g):
    return {None: None, "sgd": SGDGraftingConfig(), "adagrad": AdaGradGraftingConfig(epsilon=1e-6), "rmsprop": RMSpropGraftingConfig(beta2=0.9, epsilon=1e-6), "adam": AdamGraftingConfig(beta2=0.9, epsilon=1e-6)}[g]
cfg = st.fixed_dictionaries(dict(
    beta1=st.sampled_from([0.0, 0.9]), beta2=st.sampled_from([1.0, 0.95]), beta3=st.sampled_from([-1.0, 0.5]), momentum=st.sampled_from([0.0, 0.5]),
    nesterov=st.booleans(), wd=st.sampled_from([0.0, 0.1]), decoupled=st.booleans(), bias=st.booleans(), graft=graft, merge=st.booleans(), mpd=st.integers(2, 4),
    freq=st.integers(1, 3), start_off=st.integers(0, 2), soap=st.sampled_from([None, "eigh", "qr"]),
))
def build(ps, c):
    pc = DefaultShampooConfig if c["soap"] is None else EigenvalueCorrectedShampooPreconditionerConfig(amortized_computation_config=EighEigenvectorConfig() if c["soap"]=="eigh" else QRConfig())
    return DistributedShampoo(ps, lr=0.01, betas=(c["beta1"], c["beta2"]), beta3=c["beta3"] if c["beta1"] else -1.0, epsilon=1e-6, momentum=c["momentum"], use_nesterov=c["nesterov"], weight_decay=c["wd"],
        use_decoupled_weight_decay=c["decoupled"], use_bias_correction=c["bias"], grafting_config=mk_graft(c["graft"]), use_merge_dims=c["merge"], max_preconditioner_dim=c["mpd"],
        precondition_frequency=c["freq"], start_preconditioning_step=c["freq"]+c["start_off"], preconditioner_config=pc)
def all_state(opt, ps):
    sd = opt.distributed_state_dict(key_to_param=iter([(f"p{i}", p) for i, p in enumerate(ps)]))
    return {pk: {k: v.clone() for k, v in d.items()} for pk, d in sd["state"].items()}
stats = dict(n=0, loadfail=0)
@seed(1)
@settings(max_examples=300, deadline=None, database=None, suppress_health_check=list(HealthCheck))
@given(cfg, st.lists(shape_st, min_size=1, max_size=3), st.integers(0, 10**6), st.integers(2, 6), st.data())
def test(c, shapes, sd_, T, data):
    gen = torch.Generator().manual_seed(sd_)
    P0 = [torch.randn(s, generator=gen) for s in shapes]
    masks = [[data.draw(st.booleans()) or i == 0 for i in range(len(shapes))] for _ in range(T)]
    G = [[torch.randn(s, generator=gen) for s in shapes] for _ in range(T)]
    k = data.draw(st.integers(0, T))
    psA = [torch.nn.Parameter(p.clone()) for p in P0]; A = build(psA, c)
    def step(opt, ps, t):
        for p, g, m in zip(ps, G[t], masks[t]): p.grad = g.clone() if m else None
        opt.step()
    for t in range(k): step(A, psA, t)
    sd = A.distributed_state_dict(key_to_param=iter([(f"p{i}", p) for i, p in enumerate(psA)]))
    buf = io.BytesIO(); torch.save(sd, buf); buf.seek(0); sd2 = torch.load(buf, weights_only=False)
    psB = [torch.nn.Parameter(p.detach().clone()) for p in psA]; B = build(psB, c)
    stats["n"] += 1
    try:
        B.load_distributed_state_dict(sd2, key_to_param=iter([(f"p{i}", p) for i, p in enumerate(psB)]))
    except KeyError as e:
        stats["loadfail"] += 1; return
    for t in range(k, T):
        step(A, psA, t); step(B, psB, t)
        for a, b in zip(psA, psB): assert torch.equal(a, b), ("param", c, shapes, k, t)
        sa, sb = all_state(A, psA), all_state(B, psB)
        assert sa.keys() == sb.keys()
        for pk in sa:
            assert sa[pk].keys() == sb[pk].keys()
            for kk in sa[pk]: assert torch.equal(sa[pk][kk], sb[pk][kk]), ("state", pk, kk, c, shapes, k, t)
test(); print("C09 proto ok", stats)
