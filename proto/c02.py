import torch, logging, math
from hypothesis import given, settings, strategies as st, HealthCheck, seed
from distributed_shampoo.distributed_shampoo import DistributedShampoo
from distributed_shampoo.shampoo_types import *
logging.disable(logging.CRITICAL); torch.set_num_threads(1)
worst = {}
f = lambda lo, hi: st.floats(lo, hi, allow_nan=False, width=32)
case = st.fixed_dictionaries(dict(kind=st.sampled_from(["sgd","adagrad","rmsprop","adam","adamw"]), lr=f(2**-13, 0.5), beta1=f(0.0, 0.984375), beta2=f(0.5, 0.9990234375), eps=st.sampled_from([1e-10, 1e-8, 1e-3]),
    wd=st.sampled_from([0.0, 0.3, 0.01]), mom=st.sampled_from([0.0, 0.5, 0.9]), nesterov=st.booleans(), mpd=st.integers(1, 5), merge=st.booleans(), T=st.integers(1, 10), seed=st.integers(0, 10**6),
    shapes=st.lists(st.lists(st.integers(1, 6), min_size=0, max_size=4).map(tuple), min_size=1, max_size=3), allmask=st.booleans()))
@seed(3)
@settings(max_examples=600, deadline=None, database=None, suppress_health_check=list(HealthCheck))
@given(case, st.data())
def test(c, data):
    gen = torch.Generator().manual_seed(c["seed"]); dt = torch.float64
    P0 = [torch.randn(s, generator=gen, dtype=dt) for s in c["shapes"]]
    k = c["kind"]; nest = c["nesterov"] and c["mom"] > 0
    common = dict(lr=c["lr"], epsilon=1e-12, max_preconditioner_dim=c["mpd"], use_merge_dims=c["merge"], precondition_frequency=1, start_preconditioning_step=10**6, weight_decay=c["wd"], preconditioner_dtype=dt)
    pa = [torch.nn.Parameter(p.clone()) for p in P0]; pb = [torch.nn.Parameter(p.clone()) for p in P0]
    if k == "sgd":
        A = DistributedShampoo(pa, betas=(0.0, 1.0), momentum=c["mom"], use_nesterov=nest, use_decoupled_weight_decay=False, grafting_config=SGDGraftingConfig(), **common)
        B = torch.optim.SGD(pb, lr=c["lr"], momentum=c["mom"], nesterov=nest, weight_decay=c["wd"])
    elif k == "adagrad":
        A = DistributedShampoo(pa, betas=(0.0, 1.0), use_decoupled_weight_decay=False, grafting_config=AdaGradGraftingConfig(epsilon=c["eps"]), **common)
        B = torch.optim.Adagrad(pb, lr=c["lr"], eps=c["eps"], weight_decay=c["wd"])
    elif k == "rmsprop":
        A = DistributedShampoo(pa, betas=(0.0, 1.0), momentum=c["mom"], use_decoupled_weight_decay=False, use_bias_correction=False, grafting_config=RMSpropGraftingConfig(beta2=c["beta2"], epsilon=c["eps"]), **common)
        B = torch.optim.RMSprop(pb, lr=c["lr"], alpha=c["beta2"], eps=c["eps"], momentum=c["mom"], weight_decay=c["wd"])
    else:
        A = DistributedShampoo(pa, betas=(c["beta1"], c["beta2"]), use_decoupled_weight_decay=(k=="adamw"), use_bias_correction=True, grafting_config=AdamGraftingConfig(beta2=c["beta2"], epsilon=c["eps"]), **common)
        B = (torch.optim.AdamW if k=="adamw" else torch.optim.Adam)(pb, lr=c["lr"], betas=(c["beta1"], c["beta2"]), eps=c["eps"], weight_decay=c["wd"])
    cum = [0.0]*len(pa)
    for t in range(c["T"]):
        present = data.draw(st.booleans()) if c["allmask"] else True   # all-or-nothing per step
        for a, b in zip(pa, pb):
            g = torch.randn(a.shape, generator=gen, dtype=dt)
            a.grad = g.clone() if present else None; b.grad = g.clone() if present else None
        prev = [b.detach().clone() for b in pb]
        A.step(); B.step()
        for i, (a, b) in enumerate(zip(pa, pb)):
            cum[i] += (b.detach()-prev[i]).norm().item()
            r = ((a-b).norm()/(cum[i]+1e-300)).item() if cum[i] > 0 else (a-b).norm().item()
            worst[k] = max(worst.get(k, 0), r)
            assert r < 4e-6, (c, t, r)
test(); print("C02 proto ok; worst relative diffs (f64):", {k: f"{v:.1e}" for k, v in worst.items()})
