import torch, logging, time
from torch._dynamo.utils import counters
from distributed_shampoo.distributed_shampoo import DistributedShampoo
from distributed_shampoo.shampoo_types import ShampooPT2CompileConfig, AdaGradGraftingConfig
logging.disable(logging.CRITICAL)
torch._dynamo.reset(); counters.clear()
gen = torch.Generator().manual_seed(0)
ps = [torch.nn.Parameter(torch.randn(4,3, generator=gen)), torch.nn.Parameter(torch.randn(5, generator=gen))]
opt = DistributedShampoo(ps, lr=0.01, betas=(0.9, 0.99), epsilon=1e-8, max_preconditioner_dim=3, precondition_frequency=2, start_preconditioning_step=2, grafting_config=AdaGradGraftingConfig(),
    shampoo_pt2_compile_config=ShampooPT2CompileConfig(pytorch_compile_backend="aot_eager"))
for t, m in enumerate([(1,1),(1,1),(1,0),(1,1)]):
    for p, mm in zip(ps, m): p.grad = torch.randn(p.shape, generator=gen) if mm else None
    opt.step()
    print(t, "frames ok", counters["frames"]["ok"], "unique_graphs", counters["stats"]["unique_graphs"], "graph_breaks", sum(counters["graph_break"].values()), "recompiles", dict(counters["recompiles"]) if "recompiles" in counters else None)
print({k: dict(v) for k, v in counters.items() if k in ("frames", "stats")})
