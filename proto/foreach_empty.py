import torch
for name, f in [
 ("add_", lambda: torch._foreach_add_([], [], alpha=0.1)),
 ("add_scalar", lambda: torch._foreach_add_([], 1e-16)),
 ("mul_", lambda: torch._foreach_mul_([], 0.5)),
 ("mul_tensor", lambda: torch._foreach_mul_([], torch.tensor(-0.1))),
 ("lerp", lambda: torch._foreach_lerp([], [], weight=0.1)),
 ("lerp_", lambda: torch._foreach_lerp_([], [], weight=0.1)),
 ("div", lambda: torch._foreach_div([], 0.5)),
 ("div_t", lambda: torch._foreach_div([], torch.tensor(0.5))),
 ("norm", lambda: torch._foreach_norm([])),
 ("copy_", lambda: torch._foreach_copy_([], [])),
 ("addcmul_", lambda: torch._foreach_addcmul_([], [], [], value=1.0)),
 ("sqrt_", lambda: torch._foreach_sqrt_([])),
 ("div_list", lambda: torch._foreach_div_([], [])),
 ("mul_list", lambda: torch._foreach_mul_([], [])),
]:
    try:
        r = f(); print(name, "ok", r)
    except Exception as e:
        print(name, "RAISES", type(e).__name__, str(e)[:80])
