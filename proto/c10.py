import torch, logging, math
from fractions import Fraction
from hypothesis import given, settings, strategies as st, HealthCheck, seed
from matrix_functions import matrix_inverse_root, _matrix_inverse_root_newton, _matrix_inverse_root_higher_order, NewtonConvergenceFlag
from matrix_functions_types import *
logging.disable(logging.CRITICAL); torch.set_num_threads(1)
D = torch.float64
stats = dict(n=0, newton_conv=0, ho_ret=0, ho_raise=0, ho_conv=0); worst = dict(eig=0.0, newton=0.0, ho=0.0, diag=0.0, equiv=0.0, comm=0.0, sym=0.0, lam=0.0)
def mk(n, sd_, logk, scale, rankdef, dt, neg=0.0):
    gen = torch.Generator().manual_seed(sd_)
    V = torch.linalg.qr(torch.randn(n, n, generator=gen, dtype=D)).Q
    lam = torch.logspace(0, -logk, n, dtype=D)*scale
    if rankdef: lam[-max(1, n//3):] = 0.0
    if neg: lam[-1] = -neg*scale
    A = (V*lam)@V.T; return ((A+A.T)/2).to(dt), V
def oracle(A, root, eps):
    L, Q = torch.linalg.eigh(A.to(D)); L = L - min(L.min().item(), 0.0) + eps
    return (Q*L.pow(-1.0/float(root)))@Q.T, (L.max()/L.min()).item(), L
@seed(7)
@settings(max_examples=3000, deadline=None, database=None, suppress_health_check=list(HealthCheck))
@given(st.integers(1, 24), st.integers(0, 10**6), st.floats(0, 6), st.sampled_from([1e-4, 1.0, 1e4]), st.booleans(), st.sampled_from([torch.float32, torch.float64]),
       st.sampled_from([Fraction(1), Fraction(2), Fraction(4), Fraction(6), Fraction(8, 3), Fraction(3, 2), Fraction(4/1.82)]), st.floats(-10, -1), st.sampled_from([0.0, 1e-4]))
def test(n, sd_, logk, scale, rankdef, dt, root, logeps, neg):
    stats["n"] += 1
    A, V = mk(n, sd_, logk, scale, rankdef, dt, neg if n > 1 else 0.0)
    u = torch.finfo(dt).eps/2; eps = max(10**logeps, 16*u)*scale
    Xr, kappa, L = oracle(A, root, eps)
    bound = 8*n*u*kappa + (1/float(root))*6e-8*max(abs(math.log(L.min().item())), abs(math.log(L.max().item())))*2 + 4*u
    for cfg, key in ((EigenConfig(), "eig"), (EigenConfig(enhance_stability=True), "eig")):
        X = matrix_inverse_root(A, root, cfg, epsilon=eps)
        assert torch.isfinite(X).all()
        err = (torch.linalg.matrix_norm(X.double()-Xr, 2)/torch.linalg.matrix_norm(Xr, 2)).item()
        if bound < 0.1:
            worst[key] = max(worst[key], err/bound); assert err <= bound, ("eig", n, kappa, err, bound, dt, root)
        Xd = X.double()
        worst["sym"] = max(worst["sym"], ((Xd-Xd.T).norm()/(n*u*Xd.norm())).item())
        ev = torch.linalg.eigvalsh((Xd+Xd.T)/2)
        kx = kappa**(1/float(root))
        if 64*n*u*kx < 1: assert ev.min() > 0, (n, kx)
        else: assert ev.min() > -64*n*u*ev.max()
        worst["lam"] = max(worst["lam"], (ev.max().item()/eps**(-1/float(root)) - 1)/(n*u*kappa + 1e-7))
        Ad = A.double(); worst["comm"] = max(worst["comm"], ((Ad@Xd - Xd@Ad).norm()/(n*u*Ad.norm()*Xd.norm())).item())
    # iterative solvers (PSD inputs only, integer roots for newton)
    if neg == 0.0 and n > 1:
        if root.denominator == 1:
            X, M, flag, it, e = _matrix_inverse_root_newton(A, root.numerator, eps, 100, 1e-6)
            if flag == NewtonConvergenceFlag.CONVERGED:
                stats["newton_conv"] += 1
                assert e <= 1e-6
                res = ((A.double() + eps*torch.eye(n, dtype=D)) @ torch.linalg.matrix_power(X.double(), root.numerator) - torch.eye(n, dtype=D)).abs().max().item()
                worst["newton"] = max(worst["newton"], res/(1e-6 + n*u*kappa))
        if root.numerator <= 8 and root.denominator <= 8:
            try:
                X, M, flag, it, e = _matrix_inverse_root_higher_order(A, root, abs_epsilon=eps, tolerance=1e-8 if dt == torch.float64 else 1e-6)
                stats["ho_ret"] += 1; stats["ho_conv"] += int(flag == NewtonConvergenceFlag.CONVERGED)
                assert e <= 0.1
                if root.denominator == 1:
                    res = ((A.double() + eps*torch.eye(n, dtype=D)) @ torch.linalg.matrix_power(X.double(), root.numerator) - torch.eye(n, dtype=D)).abs().max().item()
                    worst["ho"] = max(worst["ho"], res)
            except ArithmeticError: stats["ho_raise"] += 1
test(); print("C10/C11 proto ok", stats, {k: f"{v:.2e}" for k, v in worst.items()})
