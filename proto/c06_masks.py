import sys, torch, logging, random
sys.path.insert(0, "/tmp/exp")
from sim2 import run_world
from distributed_shampoo.distributed_shampoo import DistributedShampoo
from distributed_shampoo.shampoo_types import *
from matrix_functions_types import *
logging.disable(logging.CRITICAL)
shapes = [(6,4),(5,),(3,3,2),(7,2),(4,4),(2,5)]; T = 7
def kw_for(i):
    soap = i % 3 == 2
    return dict(lr=0.01, betas=(0.9 if i%2 else 0.0, 0.99), epsilon=1e-6, momentum=0.5 if i%4<2 else 0.0, weight_decay=0.1*(i%2), max_preconditioner_dim=3, precondition_frequency=2, start_preconditioning_step=2,
        grafting_config=[None, SGDGraftingConfig(), AdaGradGraftingConfig(), AdamGraftingConfig()][i%4],
        preconditioner_config=(EigenvalueCorrectedShampooPreconditionerConfig(amortized_computation_config=QRConfig() if i%2 else EighEigenvectorConfig()) if soap else DefaultShampooConfig))
def data(seed):
    gen = torch.Generator().manual_seed(seed)
    return [torch.randn(s, generator=gen) for s in shapes], [[torch.randn(s, generator=gen) for s in shapes] for _ in range(T)]
def run_serial(seed, masks, kw):
    P, G = data(seed); ps = [torch.nn.Parameter(p.clone()) for p in P]; opt = DistributedShampoo(ps, **kw)
    for t in range(T):
        for p, g, m in zip(ps, G[t], masks[t]): p.grad = g.clone() if m else None
        opt.step()
    return [p.detach().clone() for p in ps]
def fn_factory(seed, masks, kw, G_, cp):
    def fn(rank, world):
        P, G = data(seed); ps = [torch.nn.Parameter(p.clone()) for p in P]
        opt = DistributedShampoo(ps, distributed_config=DDPShampooConfig(num_trainers_per_group=G_, communicate_params=cp), **kw)
        owned = {bi.composable_block_ids[0] for bi in opt._per_group_state_lists[0]["distributor"].local_block_info_list}
        for t in range(T):
            for p, g, m in zip(ps, G[t], masks[t]): p.grad = g.clone() if m else None
            opt.step(); world.barrier(t)
        return [p.detach().clone() for p in ps], owned
    return fn
rnd = random.Random(0); bad = 0; starve = 0
for i in range(40):
    kw = kw_for(i); W = 4; G_ = [2, -1, 1][i % 3]
    masks = [[rnd.random() < 0.6 for _ in shapes] for _ in range(T)]
    # find ownership by a dry world
    res, errs, alive, world = run_world(W, fn_factory(i, [[True]*len(shapes)]*T, kw, G_, False), join_timeout=30)
    owners = [res[r][1] for r in range(W)]
    for m in masks:   # repair starvation: if any param present, every rank must own a present param
        if any(m):
            for o in owners:
                if not any(m[j] for j in o): m[sorted(o)[0]] = True; starve += 1
    ref = run_serial(i, masks, kw)
    res, errs, alive, world = run_world(W, fn_factory(i, masks, kw, G_, bool(i % 2)), join_timeout=30)
    ok = not errs and all(all(torch.equal(a, b) for a, b in zip(res[r][0], ref)) for r in range(W))
    if not ok:
        bad += 1; print("MISMATCH case", i, G_, world.deadlock, {r: e[-300:] for r, e in errs.items()})
print("cases 40, repaired starvation steps", starve, "mismatches", bad)
