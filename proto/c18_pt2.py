import sys, time, torch, logging
from distributed_shampoo.distributed_shampoo import DistributedShampoo
from distributed_shampoo.shampoo_types import ShampooPT2CompileConfig, AdaGradGraftingConfig, AdamGraftingConfig
logging.disable(logging.CRITICAL)
shapes = [(5,4),(3,),(3,2,3)]
masks = [(1,1,1),(1,1,1),(1,0,1),(1,1,1),(1,1,1)]
def run(cfg, **kw):
    gen = torch.Generator().manual_seed(0)
    ps = [torch.nn.Parameter(torch.randn(s, generator=gen)) for s in shapes]
    opt = DistributedShampoo(ps, lr=0.01, betas=(0.9,0.99), epsilon=1e-8, max_preconditioner_dim=3, precondition_frequency=2, start_preconditioning_step=2, shampoo_pt2_compile_config=cfg, **kw)
    for m in masks:
        for p, mm in zip(ps, m): p.grad = torch.randn(p.shape, generator=gen) if mm else None
        opt.step()
    return [p.detach().clone() for p in ps]
for backend in ["eager", "aot_eager"]:
    for dyn in [False, True, None]:
        for kw in [dict(grafting_config=AdaGradGraftingConfig()), dict(momentum=0.5, use_nesterov=True, weight_decay=0.1, grafting_config=AdamGraftingConfig())]:
            torch._dynamo.reset()
            t = time.time()
            try:
                a = run(ShampooPT2CompileConfig(pytorch_compile_backend=backend, enable_shampoo_pt2_dynamic_shape=dyn), **kw)
                b = run(None, **kw)
                print(backend, dyn, list(kw)[:2], "equal:", [torch.equal(x,y) for x,y in zip(a,b)], "maxdiff", max((x-y).abs().max().item() for x,y in zip(a,b)), f"{time.time()-t:.1f}s")
            except Exception as e:
                print(backend, dyn, "RAISED", type(e).__name__, str(e)[:300], f"{time.time()-t:.1f}s")
