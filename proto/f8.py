import torch, logging, sys
logging.disable(logging.CRITICAL)
from distributed_shampoo.distributed_shampoo import DistributedShampoo
def mk():
    ps = [torch.nn.Parameter(torch.ones(3, 2))]
    return ps, DistributedShampoo(ps, lr=0.01, betas=(0.9, 1.0), momentum=0.5)
ps, a = mk()
for p in ps: p.grad = torch.ones_like(p)
a.step()
sd = a.distributed_state_dict(key_to_param=iter([("p0", ps[0])]))
print(list(sd["state"]["p0"].keys()))
for victim in list(sd["state"]["p0"].keys()):
    sd2 = {"state": {"p0": {k: v for k, v in sd["state"]["p0"].items() if k != victim}}, "param_groups": sd["param_groups"]}
    ps2, b = mk()
    try:
        b.load_distributed_state_dict(sd2, key_to_param=iter([("p0", ps2[0])])); print("ACCEPTED without", victim)
    except KeyError as e: print("raises without", victim)
