import torch, logging, sys, itertools
sys.path.insert(0, "/tmp/exp")
from ref_proto import ref_blocks
from distributed_shampoo.distributed_shampoo import DistributedShampoo
from distributed_shampoo.shampoo_types import *
from matrix_functions_types import *
logging.disable(logging.CRITICAL); torch.set_num_threads(1)
D = torch.float64
def rot(G, Qs, sel, back=False):
    it = iter(Qs)
    for s in sel:
        if s: G = torch.tensordot(G, next(it), dims=([0],[1] if back else [0]))
        else: G = G.permute(*range(1, G.dim()), 0)
    return G
def run(seed, dt, method, ignored, T=9):
    gen = torch.Generator().manual_seed(seed)
    shapes = [(5,4),(6,),(3,2,4)]; thr = 3; b1, b2, eps, lr, freq, start = 0.9, 0.95, 1e-6, 0.0078125, 2, 3
    cfgm = EighEigenvectorConfig() if method == "eigh" else QRConfig(max_iterations=1)
    ps = [torch.nn.Parameter(torch.randn(s, generator=gen, dtype=D).to(dt)) for s in shapes]
    opt = DistributedShampoo(ps, lr=lr, betas=(b1, b2), epsilon=eps, max_preconditioner_dim=thr, precondition_frequency=freq, start_preconditioning_step=start, use_merge_dims=False, preconditioner_dtype=dt,
        preconditioner_config=EigenvalueCorrectedShampooPreconditionerConfig(amortized_computation_config=cfgm, ignored_dims=ignored))
    worst = {}
    def upd(k, a, b, s=None):
        worst[k] = max(worst.get(k, 0), ((a.to(D)-b.to(D)).norm()/((b.to(D).norm() if s is None else s)+1e-300)).item())
    for t in range(1, T+1):
        grads = [torch.randn(s, generator=gen, dtype=D).to(dt) for s in shapes]
        snap = {}
        for pi, p in enumerate(ps):
            md, sls = ref_blocks(p.shape, thr, False)
            for bi, sl in enumerate(sls):
                st_ = opt.state[p][f"block_{bi}"]; sh = st_["shampoo"]
                snap[(pi,bi)] = dict(F=[x.clone().to(D) for x in sh.factor_matrices], Q=[x.clone() for x in sh.factor_matrices_eigenvectors], v=sh.corrected_eigenvalues.clone().to(D), fg=st_["filtered_grad"].clone().to(D), w=p.detach()[sl].clone().to(D), g=grads[pi][sl].clone().to(D))
            p.grad = grads[pi].clone()
        opt.step()
        refresh = (t % freq == 0 and t > start) or t == start
        for pi, p in enumerate(ps):
            md, sls = ref_blocks(p.shape, thr, False)
            for bi, sl in enumerate(sls):
                s0 = snap[(pi,bi)]; sh = opt.state[p][f"block_{bi}"]["shampoo"]; g = s0["g"]; order = g.dim()
                sel = [d not in ignored for d in range(order)]
                pdims = [d for d in range(order) if sel[d]]
                for j, d in enumerate(pdims):
                    dims = [i for i in range(order) if i != d]
                    upd("factor", sh.factor_matrices[j], b2*s0["F"][j] + (1-b2)*torch.tensordot(g, g, dims=[dims, dims]))
                Qn = [q.to(D) for q in sh.factor_matrices_eigenvectors]
                if refresh:
                    for j, Q in enumerate(Qn):
                        n = Q.shape[0]; upd("orth", Q.T@Q, torch.eye(n, dtype=D), s=1.0)
                        if method == "eigh":
                            F = sh.factor_matrices[j].to(D); M = Q.T@F@Q; upd("diag", M - torch.diag(torch.diag(M)), torch.zeros_like(M), s=F.norm())
                else:
                    for qa, qb in zip(sh.factor_matrices_eigenvectors, s0["Q"]): assert torch.equal(qa, qb)
                use = bool(Qn) and bool(Qn[0].any())
                gr = rot(g, Qn, sel) if use else g
                upd("v", sh.corrected_eigenvalues, b2*s0["v"] + (1-b2)*gr*gr)
                fbar = (b1*s0["fg"] + (1-b1)*g) / (1 - b1*b1**(t-1))
                fr = rot(fbar, Qn, sel) if use else fbar
                d = fr / (sh.corrected_eigenvalues.to(D)/(1-b2**t) + eps).pow(0.5)
                if use: d = rot(d, Qn, sel, back=True)
                upd("delta", p.detach()[sl].to(D) - s0["w"], -lr*d)
    return worst
for dt in (torch.float64, torch.float32):
    for method in ("eigh", "qr"):
        for ignored in ([], [0], [1]):
            agg = {}
            for seed in range(4):
                for k, v in run(seed, dt, method, ignored).items(): agg[k] = max(agg.get(k, 0), v)
            print(str(dt)[6:], method, ignored, {k: f"{v:.1e}" for k, v in agg.items()})
