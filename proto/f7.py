import torch, logging, sys
logging.disable(logging.CRITICAL)
from distributed_shampoo.distributed_shampoo import DistributedShampoo
from distributed_shampoo.shampoo_types import SGDGraftingConfig
torch.manual_seed(0)
ps = [torch.nn.Parameter(torch.randn(3, 2)) for _ in range(2)]
opt = DistributedShampoo(ps, lr=0.1, betas=(0.0, 1.0), momentum=0.5, grafting_config=SGDGraftingConfig(), start_preconditioning_step=100, precondition_frequency=100)
def step(mask):
    for p, m in zip(ps, mask): p.grad = torch.randn(3, 2) if m else None
    opt.step()
step([True, False])
opt.param_groups[0]["momentum"] = 0.0      # scheduler sets momentum to zero ...
step([False, True])                        # ... the set of parameters with gradients changes meanwhile ...
opt.param_groups[0]["momentum"] = 0.5      # ... and momentum is switched on again
m0 = opt.state[ps[0]]["block_0"]["momentum"].clone(); m1 = opt.state[ps[1]]["block_0"]["momentum"].clone()
step([False, True])
ch0 = not torch.equal(m0, opt.state[ps[0]]["block_0"]["momentum"]); ch1 = not torch.equal(m1, opt.state[ps[1]]["block_0"]["momentum"])
print("momentum buffer of parameter 0 (no gradient) changed:", ch0, "| of parameter 1 (has gradient) changed:", ch1)
sys.exit(1 if ch0 or not ch1 else 0)
