import torch, logging, sys
logging.disable(logging.CRITICAL)
from distributed_shampoo.distributed_shampoo import DistributedShampoo
from distributed_shampoo.shampoo_types import ShampooPreconditionerConfig
def mk():
    ps = [torch.nn.Parameter(torch.ones(3, 2)), torch.nn.Parameter(torch.ones(4))]
    return ps, DistributedShampoo(ps, lr=0.01, betas=(0.0, 1.0), preconditioner_config=ShampooPreconditionerConfig(ignored_dims=[0]))
ps, a = mk()
for p in ps: p.grad = torch.ones_like(p)
a.step()
sd = a.distributed_state_dict(key_to_param=iter([(f"p{i}", p) for i, p in enumerate(ps)]))
ps2, b = mk()
try:
    b.load_distributed_state_dict(sd, key_to_param=iter([(f"p{i}", p) for i, p in enumerate(ps2)]))
    print("loaded own checkpoint OK")
except KeyError as e:
    print("KeyError", e); sys.exit(1)
# a missing tensor-bearing entry must still raise
print(list(sd["state"]["p0"].keys()))
k=[k for k in sd["state"]["p0"] if "factor_matrices" in k and "inv" not in k and "diag" not in k][0]; del sd["state"]["p0"][k]
try:
    b.load_distributed_state_dict(sd, key_to_param=iter([(f"p{i}", p) for i, p in enumerate(ps2)])); print("missing factor accepted!"); sys.exit(1)
except KeyError as e: print("missing entry still raises:", e)
