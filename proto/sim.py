"""Prototype: in-process multi-rank simulator with harness-side collective wrappers + deadlock detection."""
import sys, threading, time, traceback, contextlib
from unittest import mock
import torch, torch.distributed as dist
import torch.distributed.distributed_c10d as c10d
import torch.distributed.device_mesh as dm
from torch.testing._internal.distributed.multi_threaded_pg import _install_threaded_pg, _uninstall_threaded_pg, ProcessLocalGroup
from distributed_shampoo.utils import shampoo_dist_utils

class SimDeadlock(BaseException): pass

class World:
    def __init__(self, W):
        self.W = W
        self.cv = threading.Condition()
        self.state = ["running"]*W       # running | coll:<key> | barrier:<k> | done
        self.arrived = {}                # key -> set(ranks)
        self.members = {}                # key -> tuple(ranks)
        self.coll_seq = [dict() for _ in range(W)]  # per rank: group_ranks -> count
        self.log = [[] for _ in range(W)]
        self.deadlock = None
        self.bar = {}
        self.ng_seq = [0]*W; self.waves = {}; self.wave_result = {}; self.t2 = []
        self.tl = threading.local()
    def rank(self): return self.tl.rank
    def _check(self, resolve_waves=False):
        # called with cv held
        # complete waves resolve immediately
        for k, w in self.waves.items():
            if k not in self.wave_result and len(w) == self.W:
                same = len({v[0] for v in w.values()}) == 1
                if not same: self.t2.append((k, dict(w)))
                self.wave_result[k] = same; self.cv.notify_all(); return
        if any(s == "running" for s in self.state): return
        # quiescent: an incomplete wave is resolved with whoever is there (contract violation)
        for k, w in sorted(self.waves.items()):
            if k not in self.wave_result:
                self.t2.append((k, dict(w))); self.wave_result[k] = False; self.cv.notify_all(); return
        # nobody running: is anyone able to proceed?
        for key, arr in self.arrived.items():
            if key[0] == "new_group": continue
            if arr == set(self.members[key]) and any(st == f"coll:{key}" for st in self.state): return  # a complete collective exists, its members will wake
        for k, arr in self.bar.items():
            if len(arr) == self.W and any(s == f"barrier:{k}" for s in self.state): return
        if all(s == "done" for s in self.state): return
        self.deadlock = dict(states=list(self.state))
        self.cv.notify_all()
    def collective(self, op, group, real, *a, **k):
        r = self.rank()
        ranks = tuple(dist.get_process_group_ranks(group if group is not None else dist.group.WORLD))
        n = self.coll_seq[r].get(ranks, 0); self.coll_seq[r][ranks] = n+1
        key = (op, ranks, n)
        self.log[r].append((op, ranks, n, tuple(int(x.numel()*x.element_size()) for x in a if isinstance(x, torch.Tensor))))
        with self.cv:
            self.members[key] = ranks
            self.arrived.setdefault(key, set()).add(r)
            self.state[r] = f"coll:{key}"
            self.cv.notify_all()
            self._check()
            self.cv.wait_for(lambda: self.arrived[key] == set(ranks) or self.deadlock is not None)
            if self.deadlock is not None: raise SimDeadlock()
            self.state[r] = "running"
        return real(*a, group=group, **k)
    def new_group_gate(self, ranks, site):
        """World-level rendezvous of the k-th new_group call of every rank. Returns True if the wave is collective
        (all W ranks, same rank list); otherwise records a T2 violation and returns False."""
        r = self.rank()
        k = self.ng_seq[r]; self.ng_seq[r] += 1
        key = ("new_group", k)
        with self.cv:
            self.waves.setdefault(k, {})[r] = (ranks, site)
            self.members[key] = tuple(range(self.W))
            self.arrived.setdefault(key, set()).add(r)
            self.state[r] = f"coll:{key}"
            self.cv.notify_all()
            self._check(resolve_waves=True)
            self.cv.wait_for(lambda: k in self.wave_result or self.deadlock is not None)
            if self.deadlock is not None: raise SimDeadlock()
            self.state[r] = "running"
            return self.wave_result[k]
    def barrier(self, k):
        r = self.rank()
        with self.cv:
            self.bar.setdefault(k, set()).add(r)
            self.state[r] = f"barrier:{k}"
            self.cv.notify_all()
            self._check()
            self.cv.wait_for(lambda: len(self.bar[k]) == self.W or self.deadlock is not None)
            if self.deadlock is not None: raise SimDeadlock()
            self.state[r] = "running"
    def done(self):
        with self.cv:
            self.state[self.rank()] = "done"; self.cv.notify_all(); self._check()

def run_world(W, fn, join_timeout=120):
    world = World(W)
    _install_threaded_pg()
    torch._C._distributed_c10d._set_thread_isolation_mode(True)
    shampoo_dist_utils.get_device_mesh.cache_clear()
    store = dist.HashStore()
    results = [None]*W; errors = {}
    real_ag = dist.all_gather_into_tensor
    real_new_group = c10d.new_group
    def ag(output, input, group=None, async_op=False):
        return world.collective("all_gather_into_tensor", group, lambda o,i,group: real_ag(o,i,group=group), output, input)
    def new_group(ranks=None, *a, **k):
        site = [f.name for f in traceback.extract_stack() if "shampoo" in f.filename][-2:]
        world.log[world.rank()].append(("new_group", tuple(ranks) if ranks is not None else None, site))
        collective = world.new_group_gate(tuple(ranks) if ranks is not None else None, tuple(site))
        if not collective: k["use_local_synchronization"] = True
        return real_new_group(ranks, *a, **k)
    def worker(rank):
        world.tl.rank = rank
        try:
            c10d.init_process_group(backend="threaded", rank=rank, world_size=W, store=store)
            results[rank] = fn(rank, world)
        except SimDeadlock:
            errors[rank] = "deadlock"
        except BaseException as e:
            errors[rank] = traceback.format_exc()
            with world.cv:
                world.deadlock = dict(error=rank); world.cv.notify_all()
            ProcessLocalGroup.exception_handle(e)
        finally:
            world.done()
            try: c10d.destroy_process_group()
            except Exception: pass
    import distributed_shampoo.utils.shampoo_ddp_distributor as m1, distributed_shampoo.utils.shampoo_hsdp_distributor as m2, distributed_shampoo.utils.shampoo_hybrid_shard_distributor as m3
    raw = shampoo_dist_utils.get_device_mesh.__wrapped__
    caches = [dict() for _ in range(W)]
    def per_rank_get_device_mesh(device_type, mesh, mesh_dim_names=None):
        c = caches[world.rank()]; key = (device_type, mesh, mesh_dim_names)
        if key not in c: c[key] = raw(device_type=device_type, mesh=mesh, mesh_dim_names=mesh_dim_names)
        return c[key]
    with mock.patch.object(m1, "get_device_mesh", per_rank_get_device_mesh), mock.patch.object(m2, "get_device_mesh", per_rank_get_device_mesh), mock.patch.object(m3, "get_device_mesh", per_rank_get_device_mesh), mock.patch.object(dist, "all_gather_into_tensor", ag), mock.patch.object(c10d, "new_group", new_group), mock.patch.object(dm, "new_group", new_group), mock.patch.object(dist, "new_group", new_group):
        ths = [threading.Thread(target=worker, args=(r,)) for r in range(W)]
        [t.start() for t in ths]; [t.join(join_timeout) for t in ths]
    alive = [t.is_alive() for t in ths]
    torch._C._distributed_c10d._set_thread_isolation_mode(False)
    _uninstall_threaded_pg(); ProcessLocalGroup.reset()
    return results, errors, alive, world
