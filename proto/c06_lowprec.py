import sys, torch, logging
from unittest import mock
sys.path.insert(0, "/tmp/exp")
from sim import run_world
from distributed_shampoo.distributed_shampoo import DistributedShampoo
from distributed_shampoo.shampoo_types import DDPShampooConfig, AdaGradGraftingConfig, CommunicationDType
from distributed_shampoo.utils.shampoo_distributor import Distributor
logging.disable(logging.CRITICAL)
shapes = [(6,4),(5,),(3,3,2),(7,2)]; T=6
kw = dict(lr=0.01, betas=(0.9,1.0), epsilon=1e-8, momentum=0.5, weight_decay=0.1, max_preconditioner_dim=3, precondition_frequency=1, start_preconditioning_step=2, grafting_config=AdaGradGraftingConfig(epsilon=1e-8))
def data(pd):
    gen = torch.Generator().manual_seed(0)
    return [torch.randn(s, generator=gen).to(pd) for s in shapes], [[torch.randn(s, generator=gen).to(pd) for s in shapes] for _ in range(T)]
def serial(pd, cd, cp):
    P, G = data(pd); ps = [torch.nn.Parameter(p.clone()) for p in P]
    def shim(self, masked_blocked_search_directions):
        if cp:
            torch._foreach_add_(self._local_masked_blocked_params, masked_blocked_search_directions)
            for p in self._local_masked_blocked_params: p.copy_(p.to(cd).to(p.dtype))
        else:
            for p, d in zip(self._local_masked_blocked_params, masked_blocked_search_directions): p.add_(d.to(cd))
    with mock.patch.object(Distributor, "update_params", shim):
        opt = DistributedShampoo(ps, **kw)
        for g in G:
            for p, gg in zip(ps, g): p.grad = gg.clone()
            opt.step()
    return [p.detach().clone() for p in ps]
def fn_factory(pd, cdt, cp, Gs):
    def fn(rank, world):
        P, G = data(pd); ps = [torch.nn.Parameter(p.clone()) for p in P]
        opt = DistributedShampoo(ps, distributed_config=DDPShampooConfig(communication_dtype=cdt, num_trainers_per_group=Gs, communicate_params=cp), **kw)
        for t, g in enumerate(G):
            for p, gg in zip(ps, g): p.grad = gg.clone()
            opt.step(); world.barrier(t)
        return [p.detach().clone() for p in ps]
    return fn
if __name__ == "__main__":
  for pd in (torch.float32, torch.float64, torch.bfloat16):
    for cdt, cd in ((CommunicationDType.BF16, torch.bfloat16), (CommunicationDType.FP16, torch.float16), (CommunicationDType.FP32, torch.float32)):
      for cp in (False, True):
          ref = serial(pd, cd, cp)
          res, errs, alive, world = run_world(4, fn_factory(pd, cdt, cp, 2), join_timeout=15)
          for r, e in errs.items(): print("ERR", r, e[-600:])
          ok = all(res[r] is not None and all(torch.equal(a,b) for a,b in zip(res[r], ref)) for r in range(4))
          rep = all(res[r] is not None and all(torch.equal(a,b) for a,b in zip(res[r], res[0])) for r in range(4))
          print(pd, cd, "communicate_params", cp, "bitwise==shimmed serial:", ok, "replicas identical:", rep)
