import torch, logging
from distributed_shampoo.distributed_shampoo import DistributedShampoo
from distributed_shampoo.shampoo_types import *
from matrix_functions_types import *
logging.disable(logging.CRITICAL)
for pd in (torch.float32, torch.bfloat16):
  for fd in (torch.bfloat16, torch.float16):
    for name, pc in (("shampoo", DefaultShampooConfig), ("soap-eigh", DefaultEigenvalueCorrectedShampooConfig), ("newton", ShampooPreconditionerConfig(amortized_computation_config=CoupledNewtonConfig()))):
        gen = torch.Generator().manual_seed(0)
        p = torch.nn.Parameter(torch.randn(4,3, generator=gen).to(pd))
        try:
            opt = DistributedShampoo([p], lr=0.01, betas=(0.9,0.99), epsilon=1e-3, precondition_frequency=1, start_preconditioning_step=1, max_preconditioner_dim=8, use_merge_dims=False, preconditioner_dtype=fd, preconditioner_config=pc)
            for t in range(6):
                p.grad = torch.randn(4,3, generator=gen).to(pd); opt.step()
            print(pd, fd, name, "ok finite:", torch.isfinite(p).all().item())
        except Exception as e:
            print(pd, fd, name, "RAISED", type(e).__name__, str(e)[:90])
