import itertools, math, torch, sys
from functools import lru_cache
from distributed_shampoo.utils.shampoo_fsdp_distributor import FSDPDistributor
from distributed_shampoo.utils.shampoo_hsdp_distributor import HSDPDistributor
def valid_slab(shape, a, b):
    """is [a,b) a slab k x shape[d+1:] inside a single index of dims < d, for some d (k>=1)?"""
    n = len(shape)
    if n == 0: return (a, b) == (0, 1)
    for d in range(n):
        s = math.prod(shape[d+1:])           # size of one slice along dim d
        outer = math.prod(shape[d:])         # size of one index of dims < d
        if a % s == 0 and b % s == 0 and b > a and a // outer == (b-1) // outer:
            return True
    return False
def min_pieces(shape, start, end):
    INF = 10**9
    best = [INF]*(end-start+1); best[0] = 0
    for j in range(1, end-start+1):
        for i in range(j):
            if best[i] + 1 < best[j] and valid_slab(shape, start+i, start+j): best[j] = best[i]+1
    return best[end-start]
bad = 0; total = 0
for order in range(0, 4):
    for shape in itertools.product(range(1, 5), repeat=order):
        numel = math.prod(shape)
        if numel > 30: continue
        for start in range(numel+1):
            for end in range(start, numel+1):
                total += 1
                shard = torch.arange(start, end, dtype=torch.float32)
                try:
                    r1 = FSDPDistributor._split_tensor_block_recovery(shard, torch.Size(shape), start, end)
                    r2 = HSDPDistributor._split_tensor_block_recovery(shard, torch.Size(shape), start, end)
                except Exception as e:
                    bad += 1
                    if bad < 10: print("EXC", shape, start, end, type(e).__name__, e)
                    continue
                ok = [tuple(t.shape) for t in r1] == [tuple(t.shape) for t in r2]
                flat = torch.cat([t.reshape(-1) for t in r1]) if r1 else torch.empty(0)
                ok &= torch.equal(flat, shard)
                ok &= all(t.untyped_storage().data_ptr() == shard.untyped_storage().data_ptr() for t in r1)
                pos = start
                for t in r1:
                    a, b = pos, pos + t.numel(); pos = b
                    ok &= valid_slab(shape, a, b)
                    # shape must be (k, *shape[d+1:]) for some d
                    ok &= any(tuple(t.shape[1:]) == tuple(shape[d+1:]) for d in range(len(shape))) or len(shape) == 0
                mp = min_pieces(shape, start, end) if end > start else 0
                if len(r1) != mp: ok = False
                if not ok:
                    bad += 1
                    if bad < 15: print("BAD", shape, start, end, [tuple(t.shape) for t in r1], "min", mp)
print("total", total, "bad", bad)
