import torch, logging
from unittest import mock
from hypothesis import given, settings, strategies as st, HealthCheck, seed
from distributed_shampoo.distributed_shampoo import DistributedShampoo
from distributed_shampoo.shampoo_types import *
from matrix_functions_types import *
import distributed_shampoo.utils.shampoo_preconditioner_list as pl
logging.disable(logging.CRITICAL); torch.set_num_threads(1)
stats = dict(cases=0, f3class=0, disagree_f3=0, disagree_other=0, raises=0, pve=0)
outcome = st.sampled_from(["ok", "ok", "raise", "nan"])
@seed(8)
@settings(max_examples=1500, deadline=None, database=None, suppress_health_check=list(HealthCheck))
@given(st.integers(2, 3), st.integers(0, 2), st.integers(1, 2), st.sampled_from(["shampoo", "soap_eigh", "soap_qr"]), st.integers(0, 10**6),
       st.lists(st.tuples(st.lists(st.booleans(), min_size=3, max_size=3), st.lists(outcome, min_size=6, max_size=6)), min_size=3, max_size=9))
def test(nparam, tol, freq, kind, sd_, script):
    stats["cases"] += 1
    gen = torch.Generator().manual_seed(sd_)
    ps = [torch.nn.Parameter(torch.randn(3, 2, generator=gen)) for _ in range(nparam)]
    if kind == "shampoo": pc = ShampooPreconditionerConfig(num_tolerated_failed_amortized_computations=tol); target = "matrix_inverse_root"
    else: pc = EigenvalueCorrectedShampooPreconditionerConfig(amortized_computation_config=EighEigenvectorConfig() if kind == "soap_eigh" else QRConfig(), num_tolerated_failed_amortized_computations=tol); target = "matrix_eigenvectors"
    opt = DistributedShampoo(ps, lr=0.01, betas=(0.0, 0.9), epsilon=1e-4, precondition_frequency=freq, start_preconditioning_step=freq, max_preconditioner_dim=8, use_merge_dims=False, preconditioner_config=pc)
    real = getattr(pl, target)
    plan = {"calls": [], "i": 0}
    def fake(*a, **k):
        i = plan["i"]; plan["i"] += 1
        o = plan["calls"][i] if i < len(plan["calls"]) else "ok"
        if o == "raise": raise RuntimeError("injected")
        r = real(*a, **k)
        if o == "nan": r = r.clone(memory_format=torch.contiguous_format); r.view(-1)[0] = float("nan")
        return r
    counter = [0]*nparam; prev_mask = None; changed_since_fail = [False]*nparam
    with mock.patch.object(pl, target, fake):
        t = 0
        for mask, outs in script:
            mask = mask[:nparam]
            if not any(mask): continue
            if prev_mask is not None and mask != prev_mask:
                changed_since_fail = [c or counter[i] > 0 for i, c in enumerate(changed_since_fail)]
            prev_mask = mask
            t += 1
            refresh = (t % freq == 0 and t > freq) or t == freq
            active = [i for i in range(nparam) if mask[i]]
            # per-call plan: 2 factors per block in masked order
            plan["calls"] = [outs[2*j + f] for j, i in enumerate(active) for f in range(2)] if refresh else []; plan["i"] = 0
            # model
            expect = None; model_counter = list(counter)
            if refresh:
                for j, i in enumerate(active):
                    o2 = [outs[2*j], outs[2*j+1]]
                    # nan in computed result -> PreconditionerValueError immediately at that factor (if an earlier factor of same block raised, it was tolerated so far)
                    hit_nan = False
                    for f, o in enumerate(o2):
                        if o == "nan": expect = "pve"; hit_nan = True; break
                    if hit_nan: break
                    if all(o == "ok" for o in o2): model_counter[i] = 0
                    else:
                        model_counter[i] += 1
                        if model_counter[i] > tol: expect = "value"; break
            before = [p.detach().clone() for p in ps]
            for p, m in zip(ps, mask): p.grad = torch.randn(3, 2, generator=gen) if m else None
            got = None
            try: opt.step()
            except PreconditionerValueError: got = "pve"
            except ValueError: got = "value"
            # F3 class: some active block has nonzero model counter carried over a mask change
            carried = any(counter[i] > 0 and changed_since_fail[i] for i in active)
            if carried: stats["f3class"] += 1
            if got != expect:
                if carried or stats.get("poisoned"): stats["disagree_f3"] += 1
                else:
                    stats["disagree_other"] += 1
                    assert False, ("model disagreement", kind, tol, freq, t, mask, outs, expect, got, counter)
                return
            if got is not None:
                stats["raises"] += 1; stats["pve"] += int(got == "pve")
                for p, b in zip(ps, before): assert torch.equal(p.detach(), b), "param modified on raise"
            # finiteness of stored matrices
            for p in ps:
                sh = opt.state[p]["block_0"]["shampoo"]
                mats = sh.inv_factor_matrices if kind == "shampoo" else sh.factor_matrices_eigenvectors
                assert all(torch.isfinite(m).all() for m in mats)
            if got is not None: return
            counter = model_counter
            changed_since_fail = [c and counter[i] > 0 for i, c in enumerate(changed_since_fail)]
test(); print("C13 proto", stats)
