import sys, time, torch, logging, resource, threading
sys.path.insert(0, "/tmp/exp")
from sim import run_world
from c06_lowprec import fn_factory
from distributed_shampoo.shampoo_types import CommunicationDType
logging.disable(logging.CRITICAL)
hook = sys.excepthook
t0 = time.time()
for i in range(150):
    res, errs, alive, world = run_world(4, fn_factory(torch.float32, CommunicationDType.FP32, bool(i%2), 2), join_timeout=15)
    sys.excepthook = hook
    if errs or any(alive):
        print("iteration", i, "alive", alive, "deadlock", world.deadlock, "states", world.state)
        for r, e in errs.items(): print("ERR", r, e[-1500:])
        break
    if i % 50 == 49: print(i+1, f"{time.time()-t0:.1f}s", "maxrss MB", resource.getrusage(resource.RUSAGE_SELF).ru_maxrss//1024, "threads", threading.active_count())
