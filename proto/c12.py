import torch, logging
from hypothesis import given, settings, strategies as st, HealthCheck, seed, target
from matrix_functions import matrix_eigenvectors, _compute_orthogonal_iterations
from matrix_functions_types import QRConfig, EighEigenvectorConfig
logging.disable(logging.CRITICAL); torch.set_num_threads(1)
D = torch.float64
def ref_qr(A, Q0, max_it, tol):
    """float64 reference; returns list of candidates (Q after k iterations, sorted) for admissible k"""
    A = A.to(D); Q = Q0.to(D); out = []; amp = 1.0
    for k in range(1, max_it+1):
        last = Q; Q = torch.linalg.qr(A @ Q).Q
        err = ((last - Q).norm()/last.norm()).item()
        ev = torch.einsum("ij,ik,kj->j", Q, A, Q)
        amp *= torch.linalg.cond(A @ last).item()
        out.append((k, Q[:, ev.argsort()], err, amp))
    return out
worst = [0.0]; stats = dict(n=0, informative=0)
@seed(6)
@settings(max_examples=1500, deadline=None, database=None, suppress_health_check=list(HealthCheck))
@given(st.integers(2, 12), st.integers(0, 10**6), st.sampled_from([torch.float32, torch.float64]), st.integers(1, 6), st.sampled_from([1e-1, 1e-3, 1e-6]), st.sampled_from(["random", "eig", "perturbed"]), st.floats(0.5, 4))
def test(n, sd_, dt, max_it, tol, kind, logk):
    gen = torch.Generator().manual_seed(sd_)
    V = torch.linalg.qr(torch.randn(n, n, generator=gen, dtype=D)).Q
    lam = torch.logspace(0, -logk, n, dtype=D).flip(0)      # ascending, positive, distinct
    A = ((V*lam)@V.T); A = ((A+A.T)/2).to(dt)
    if kind == "random": Q0 = torch.linalg.qr(torch.randn(n, n, generator=gen, dtype=D)).Q
    elif kind == "eig": Q0 = V.clone()
    else: Q0 = torch.linalg.qr(V + 0.05*torch.randn(n, n, generator=gen, dtype=D)).Q
    Q0 = Q0.to(dt)
    Q = matrix_eigenvectors(A, Q0, QRConfig(max_iterations=max_it, tolerance=tol))
    u = torch.finfo(dt).eps
    stats["n"] += 1
    assert (Q.T.double()@Q.double() - torch.eye(n, dtype=D)).norm() < 64*n*u
    ray = torch.einsum("ij,ik,kj->j", Q.double(), A.double(), Q.double())
    assert (ray[1:] - ray[:-1]).min() > -64*n*u*A.double().norm()
    cands = ref_qr(A, Q0, max_it, tol)
    ok = False; informative = True
    for k, Qr, e, amp in cands:
        bound = 64*n*u*amp
        if bound >= 0.05: informative = False; ok = True; continue
        dev = ((Qr.T @ Q.double()).abs() - torch.eye(n, dtype=D)).norm().item()
        if dev <= bound: ok = True; worst[0] = max(worst[0], dev/bound)
    stats["informative"] += int(informative)
    assert ok, (n, kind, [(k, amp) for k, _, _, amp in cands])
    if kind == "eig" and informative:
        dev = ((V.T @ Q.double()).abs() - torch.eye(n, dtype=D)).norm().item()
        assert dev <= 64*n*u*max(c[3] for c in cands), (dev, n, logk)
test(); print("C12 QR proto ok", stats, "worst dev/(n u cond)", worst)
