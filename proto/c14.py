import itertools, types, torch, logging
from hypothesis import given, settings, strategies as st, HealthCheck, seed
from distributed_shampoo.utils.shampoo_ddp_distributor import DDPDistributor
from distributed_shampoo.utils.shampoo_hsdp_distributor import HSDPDistributor
from distributed_shampoo.utils.shampoo_hybrid_shard_distributor import HybridShardDistributor
def ref(sizes, m):
    al = [(s + 63)//64*64 for s in sizes]
    order = sorted(range(len(al)), key=lambda i: -al[i])   # stable: ties keep index order
    load = [0]*m; out = [None]*len(al)
    for i in order:
        r = min(range(m), key=lambda j: (load[j], j)); load[r] += al[i]; out[i] = (al[i], r)
    return tuple(out)
def opt_makespan(al, m):
    al = sorted(al, reverse=True); best = [sum(al)]
    load = [0]*m
    def rec(i):
        if i == len(al): best[0] = min(best[0], max(load)); return
        seen = set()
        for j in range(m):
            if load[j] in seen: continue
            seen.add(load[j])
            if load[j] + al[i] < best[0]:
                load[j] += al[i]; rec(i+1); load[j] -= al[i]
    rec(0); return best[0]
@seed(1)
@settings(max_examples=4000, deadline=None, database=None, suppress_health_check=list(HealthCheck))
@given(st.lists(st.one_of(st.integers(1, 4096), st.sampled_from([64, 128, 65, 63, 1, 4096])), min_size=1, max_size=12), st.integers(1, 8))
def test(sizes, m):
    a = DDPDistributor._distribute_buffer_sizes(types.SimpleNamespace(_group_size=m), tuple(sizes))
    b = HSDPDistributor._distribute_buffer_sizes(types.SimpleNamespace(_dist_group_size=m), tuple(sizes))
    c = HybridShardDistributor._distribute_buffer_sizes(types.SimpleNamespace(_dist_group_size=m), tuple(sizes))
    assert a == b == c == ref(sizes, m), (sizes, m, a, ref(sizes, m))
    load = [sum(s for s, r in a if r == j) for j in range(m)]
    assert max(load) - min(load) <= max(s for s, _ in a)
    if len(sizes) <= 9:
        o = opt_makespan([s for s, _ in a], m)
        assert 3*m*max(load) <= (4*m - 1)*o, (sizes, m, max(load), o)
    # buffers
    mx = max(load); buf = torch.zeros(mx*m, dtype=torch.int8)
    views = DDPDistributor._split_local_dist_buffers(a, torch.split(buf, mx)) if mx > 0 else ()
    iv = []
    for (s, r), v in zip(a, views):
        off = v.storage_offset(); assert v.numel() == s and r*mx <= off and off + s <= (r+1)*mx and v.untyped_storage().data_ptr() == buf.untyped_storage().data_ptr()
        iv.append((off, off+s))
    iv.sort(); assert all(x[1] <= y[0] for x, y in zip(iv, iv[1:]))
test(); print("C14 proto ok")
