import sys, torch, logging
sys.path.insert(0, "/tmp/exp")
from sim2 import run_world
from distributed_shampoo.distributed_shampoo import DistributedShampoo
from distributed_shampoo.shampoo_types import DDPShampooConfig, AdaGradGraftingConfig
logging.disable(logging.CRITICAL)
def fn_factory(W, G, masks, shapes):
    def fn(rank, world):
        gen = torch.Generator().manual_seed(0)
        params = [torch.nn.Parameter(torch.randn(s, generator=gen)) for s in shapes]
        opt = DistributedShampoo(params, lr=0.01, betas=(0.9,1.0), epsilon=1e-8, max_preconditioner_dim=8, precondition_frequency=1, start_preconditioning_step=2,
            grafting_config=AdaGradGraftingConfig(epsilon=1e-8), distributed_config=DDPShampooConfig(num_trainers_per_group=G))
        owners = [bi.composable_block_ids for bi in opt._per_group_state_lists[0]["distributor"].local_block_info_list]
        for k, mask in enumerate(masks):
            for p, m in zip(params, mask): p.grad = torch.randn(p.shape, generator=gen) if m else None
            opt.step()
            world.barrier(k)
        return owners, [p.detach().clone() for p in params]
    return fn
W, G = int(sys.argv[1]), int(sys.argv[2])
shapes = [(8,8),(4,4),(2,2),(3,)]
for masks in ([(1,1,1,1)]*3, [(1,1,1,1),(1,0,0,0),(1,1,1,1)]):
    res, errs, alive, world = run_world(W, fn_factory(W, G, masks, shapes), join_timeout=20)
    print("masks", masks, "alive", alive, "errors", {r: e[-300:] for r, e in errs.items()}, "deadlock", world.deadlock)
    for r in range(W):
        print("  rank", r, "owners", res[r][0] if res[r] else None)
        print("     log", world.trace[r][-3:])
