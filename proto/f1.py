import torch, logging, sys
logging.disable(logging.CRITICAL)
from distributed_shampoo.distributed_shampoo import DistributedShampoo
from distributed_shampoo.shampoo_types import SGDGraftingConfig
p = torch.nn.Parameter(torch.ones(3, 2))
opt = DistributedShampoo([p], lr=0.1, betas=(0.9, 1.0), use_bias_correction=False, grafting_config=SGDGraftingConfig(), start_preconditioning_step=5, precondition_frequency=5)
g = torch.full((3, 2), 2.0)
p.grad = g.clone(); opt.step()
fg = opt.state[p]["block_0"]["filtered_grad"]
print("filtered_grad after 1 step:", fg.flatten()[:2].tolist(), "expected", (0.1 * g).flatten()[:2].tolist())
sys.exit(0 if torch.allclose(fg, 0.1 * g) else 1)
