import torch, logging
from distributed_shampoo.distributed_shampoo import DistributedShampoo
from distributed_shampoo.shampoo_types import EigenvalueCorrectedShampooPreconditionerConfig
from matrix_functions_types import QRConfig, EighEigenvectorConfig
def run(pdtype, fdtype, cfg, steps=8, tol=3):
    gen = torch.Generator().manual_seed(0)
    p = torch.nn.Parameter(torch.randn(4,3, generator=gen).to(pdtype))
    opt = DistributedShampoo([p], lr=0.01, betas=(0.9,0.99), epsilon=1e-8, precondition_frequency=1, start_preconditioning_step=1, max_preconditioner_dim=8, use_merge_dims=False,
        preconditioner_dtype=fdtype, preconditioner_config=EigenvalueCorrectedShampooPreconditionerConfig(amortized_computation_config=cfg, num_tolerated_failed_amortized_computations=tol))
    for t in range(steps):
        p.grad = torch.randn(4,3, generator=gen).to(pdtype)
        try:
            opt.step()
        except Exception as e:
            print("  step", t+1, "raised", type(e).__name__, str(e)[:100]); return
    print("  ok", steps, "steps")
for pd, fd in [(torch.float32, torch.float32), (torch.bfloat16, torch.float32), (torch.float32, torch.float64), (torch.float64, torch.float32)]:
    for cfg in [QRConfig(), EighEigenvectorConfig()]:
        print(pd, fd, type(cfg).__name__); run(pd, fd, cfg)
