"""Throwaway prototype: one-step-ahead float64 reference for Shampoo (+grafting, momentum, wd) from the optimizer's own previous state."""
import itertools, math, sys, logging, copy
import torch
from distributed_shampoo.distributed_shampoo import DistributedShampoo
from distributed_shampoo.shampoo_types import *
logging.disable(logging.CRITICAL)
torch.set_num_threads(1)
D = torch.float64
import os; GEPS = float(os.environ.get("GEPS", "1e-6"))

def ref_merge(shape, thr, merge):
    if not merge: return tuple(shape)
    sq = [d for d in shape if d != 1] or [1]
    out = [sq[0]]
    for d in sq[1:]:
        if out[-1]*d <= thr: out[-1] *= d
        else: out.append(d)
    return tuple(out)
def ref_blocks(shape, thr, merge):
    """returns merged dims and list of slices tuples in implementation order (dim 0 outermost)"""
    md = ref_merge(shape, thr, merge)
    per_dim = [[slice(a, min(a+thr, n)) for a in range(0, n, thr)] for n in md]
    return md, list(itertools.product(*per_dim)) if md else [()]

def snapshot(opt, p, key):
    st = opt.state[p][key]
    out = {}
    for k, v in st.items():
        if k == "shampoo":
            out["factor"] = [t.detach().clone().to(D) for t in v.factor_matrices]
            out["inv"] = [t.detach().clone().to(D) for t in v.inv_factor_matrices]
        elif isinstance(v, torch.Tensor): out[k] = v.detach().clone().to(D)
    return out

def inv_root_oracle(A, root, eps):
    L, Q = torch.linalg.eigh(A.to(D))
    L = L - min(L.min().item(), 0.0) + eps
    return (Q * L.pow(-1.0/root)) @ Q.T, (L.max()/L.min()).item()

def mode_apply(G, mats):
    # contract each mode with corresponding matrix (like repeated tensordot dims [0],[0])
    for M in mats: G = torch.tensordot(G, M, dims=([0],[0]))
    return G

def ref_step(prev, g, w, hp, t, graft):
    """prev: state snapshot(float64) of block before step; g: grad block; w: param block before step. returns predicted new state + new w, given the actual inv (post-step) if refreshed is passed separately"""
    b1, b2, b3 = hp["beta1"], hp["beta2"], hp["beta3"]
    g = g.to(D).clone(); w = w.to(D)
    if hp["wd"] != 0 and not hp["decoupled"]: g = g + hp["wd"]*w
    order = g.dim()
    new = {}
    new["factor"] = []
    for k in range(order):
        dims = [i for i in range(order) if i != k]
        outer = torch.tensordot(g, g, dims=[dims, dims])
        new["factor"].append(b2*prev["factor"][k] + (1-b2)*outer if b2 != 1 else prev["factor"][k] + outer)
    if graft in ("adagrad", "rmsprop", "adam"):
        gb2 = hp["graft_beta2"]
        new["adagrad"] = gb2*prev["adagrad"] + (1-gb2)*g*g if gb2 != 1 else prev["adagrad"] + g*g
    if b1 != 0:
        fbar = b3*prev["filtered_grad"] + (1-b3)*g
        new["filtered_grad"] = b1*prev["filtered_grad"] + (1-b1)*g
        if hp["bias_corr"]: fbar = fbar / (1 - b3*b1**(t-1))
    else: fbar = g
    return new, fbar

def run_case(seed, dtype, pdtype, graft, T=8, verbose=False):
    gen = torch.Generator().manual_seed(seed)
    shapes = [(6,4),(5,),(3,3,2),(7,2)]
    thr = 3; merge = True
    hp = dict(beta1=0.9, beta2=0.99, beta3=0.8, eps=1e-4, wd=0.05, decoupled=(seed%2==0), bias_corr=True, momentum=0.5, dampening=0.1, nesterov=(seed%3==0), lr=0.0078125, freq=2, start=3, graft_beta2=0.95, graft_eps=GEPS)
    gcfg = {"none": None, "sgd": SGDGraftingConfig(), "adagrad": AdaGradGraftingConfig(epsilon=hp["graft_eps"]), "rmsprop": RMSpropGraftingConfig(beta2=hp["graft_beta2"], epsilon=hp["graft_eps"]), "adam": AdamGraftingConfig(beta2=hp["graft_beta2"], epsilon=hp["graft_eps"])}[graft]
    if graft == "adagrad": hp["graft_beta2"] = 1.0
    ps = [torch.nn.Parameter(torch.randn(s, generator=gen, dtype=D).to(dtype)) for s in shapes]
    opt = DistributedShampoo(ps, lr=hp["lr"], betas=(hp["beta1"], hp["beta2"]), beta3=hp["beta3"], epsilon=hp["eps"], momentum=hp["momentum"], dampening=hp["dampening"], weight_decay=hp["wd"],
        max_preconditioner_dim=thr, precondition_frequency=hp["freq"], start_preconditioning_step=hp["start"], use_nesterov=hp["nesterov"], use_bias_correction=hp["bias_corr"], use_decoupled_weight_decay=hp["decoupled"],
        grafting_config=gcfg, use_merge_dims=merge, preconditioner_dtype=pdtype)
    worst = {}
    def upd(name, a, b, scale=None):
        a = a.to(D); b = b.to(D)
        s = (b.norm() if scale is None else scale) + 1e-300
        worst[name] = max(worst.get(name, 0.0), ((a-b).norm()/s).item())
    for t in range(1, T+1):
        grads = [torch.randn(s, generator=gen, dtype=D).to(dtype) for s in shapes]
        before = {}
        for pi, p in enumerate(ps):
            md, sl = ref_blocks(p.shape, thr, merge)
            for bi, s in enumerate(sl):
                key = f"block_{bi}"
                before[(pi,bi)] = (snapshot(opt, p, key), p.detach().view(md)[s].clone(), grads[pi].view(md)[s].clone())
            p.grad = grads[pi].clone()
        opt.step()
        refresh = (t % hp["freq"] == 0 and t > hp["start"]) or t == hp["start"]
        for pi, p in enumerate(ps):
            md, sl = ref_blocks(p.shape, thr, merge)
            for bi, s in enumerate(sl):
                prev, w0, g = before[(pi,bi)]
                after = snapshot(opt, p, f"block_{bi}")
                new, fbar = ref_step(prev, g, w0, hp, t, graft)
                for k in range(len(new["factor"])): upd("factor", after["factor"][k], new["factor"][k])
                if "adagrad" in new: upd("adagrad", after["adagrad"], new["adagrad"])
                if "filtered_grad" in new: upd("filtered", after["filtered_grad"], new["filtered_grad"])
                bc2 = 1 - hp["beta2"]**t if hp["bias_corr"] and hp["beta2"] < 1 else 1.0
                root = 2*g.dim()
                if refresh:
                    for k in range(len(new["factor"])):
                        X, cond = inv_root_oracle(after["factor"][k]/bc2, root, hp["eps"])
                        upd(f"inv", after["inv"][k], X)
                        worst["cond"] = max(worst.get("cond",0), cond)
                else:
                    for k in range(len(new["factor"])): assert torch.equal(after["inv"][k], prev["inv"][k])
                # direction from ACTUAL new inv roots
                if graft != "none" and graft != "sgd":
                    gbc = 1 - hp["graft_beta2"]**t if graft == "adam" and hp["graft_beta2"] < 1 else 1.0
                    gdir = fbar / ((after["adagrad"]/gbc).sqrt() + hp["graft_eps"])
                elif graft == "sgd": gdir = fbar
                if t < hp["start"] and graft != "none": d = gdir
                else:
                    d = mode_apply(fbar, after["inv"])
                    if graft != "none": d = d * (gdir.norm() / (d.norm() + 1e-16))
                w0 = w0.to(D)
                if hp["wd"] != 0 and hp["decoupled"]: d = d + hp["wd"]*w0
                if hp["momentum"] != 0:
                    m = hp["momentum"]*prev["momentum"] + (1-hp["dampening"])*d
                    upd("momentum", after["momentum"], m)
                    d = (1-hp["dampening"])*d + hp["momentum"]*m if hp["nesterov"] else m
                w1 = w0 - hp["lr"]*d
                actual = p.detach().view(md)[s]
                upd("delta", actual.to(D) - w0, w1 - w0)
                upd("param", actual, w1)
    return worst
if __name__ == "__main__":
    for dtype, pdtype in [(torch.float64, torch.float64), (torch.float32, torch.float32)]:
        for graft in ["none", "adam"]:
            agg = {}
            for seed in range(3):
                w = run_case(seed, dtype, pdtype, graft)
                for k, v in w.items(): agg[k] = max(agg.get(k, 0), v)
            print(str(dtype)[6:], str(pdtype)[6:], graft, {k: f"{v:.1e}" for k, v in agg.items()})
