import sys, torch, logging, math
sys.path.insert(0, "/tmp/exp")
from sim import run_world
from torch.distributed.device_mesh import init_device_mesh
from torch.distributed.tensor import distribute_tensor, Shard, Replicate, DTensor
from distributed_shampoo.distributed_shampoo import DistributedShampoo
from distributed_shampoo.shampoo_types import FullyShardShampooConfig, HybridShardShampooConfig, AdaGradGraftingConfig
logging.disable(logging.CRITICAL)
shapes = [(5,4),(2,),(3,2,3),(1,6)]
T = 4
masks = [(1,1,1,1),(1,0,1,1),(1,1,1,0),(1,1,1,1)]
def full_data():
    gen = torch.Generator().manual_seed(0)
    params = [torch.randn(s, generator=gen) for s in shapes]
    grads = [[torch.randn(s, generator=gen) for s in shapes] for _ in range(T)]
    return params, grads
kw = dict(lr=0.01, betas=(0.9,1.0), epsilon=1e-8, max_preconditioner_dim=3, precondition_frequency=1, start_preconditioning_step=2, grafting_config=AdaGradGraftingConfig(epsilon=1e-8))
def rows(n, S, s):
    c = -(-n//S); return min(s*c, n), min((s+1)*c, n)
def serial_oracle(S):
    params, grads = full_data(); out = []
    for s in range(S):
        loc = [(i, *rows(shapes[i][0], S, s)) for i in range(len(shapes))]
        ps = [torch.nn.Parameter(params[i][a:b].clone()) for i,a,b in loc]
        live = [(p, i, a, b) for p, (i,a,b) in zip(ps, loc) if b > a]
        opt = DistributedShampoo([p for p,_,_,_ in live], **kw)
        for t in range(T):
            for p,i,a,b in live: p.grad = grads[t][i][a:b].clone() if masks[t][i] else None
            opt.step()
        out.append([p.detach() for p in ps])
    return out
def fn_factory(R, S, G, hybrid):
    def fn(rank, world):
        if hybrid:
            mesh = init_device_mesh("cpu", (R, S), mesh_dim_names=("replicate", "shard")); pl = [Replicate(), Shard(0)]; s = mesh.get_local_rank(1)
            cfg = HybridShardShampooConfig(device_mesh=mesh, num_trainers_per_group=G)
        else:
            mesh = init_device_mesh("cpu", (S,)); pl = [Shard(0)]; s = mesh.get_local_rank(0); cfg = FullyShardShampooConfig()
        params, grads = full_data()
        ps = [torch.nn.Parameter(distribute_tensor(p, mesh, pl)) for p in params]
        opt = DistributedShampoo(ps, distributed_config=cfg, **kw)
        for t in range(T):
            for i, p in enumerate(ps): p.grad = distribute_tensor(grads[t][i], mesh, pl) if masks[t][i] else None
            opt.step(); world.barrier(t)
        return s, [p.detach().to_local().clone() for p in ps]
    return fn
R, S, G, hybrid = int(sys.argv[1]), int(sys.argv[2]), int(sys.argv[3]), sys.argv[4] == "h"
oracle = serial_oracle(S)
res, errs, alive, world = run_world(R*S if hybrid else S, fn_factory(R, S, G, hybrid), join_timeout=15)
print("alive", alive, "deadlock", world.deadlock)
for r, e in errs.items(): print("ERR", r, e[-1500:])
for r, x in enumerate(res):
    if x: print(r, "shard", x[0], "local shapes", [tuple(a.shape) for a in x[1]], "equal serial:", [torch.equal(a, b) for a, b in zip(x[1], oracle[x[0]])])
