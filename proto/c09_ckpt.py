import torch, logging, copy
from distributed_shampoo.distributed_shampoo import DistributedShampoo
from distributed_shampoo.shampoo_types import ShampooPreconditionerConfig, AdaGradGraftingConfig, EigenvalueCorrectedShampooPreconditionerConfig
logging.disable(logging.CRITICAL)
def mk(shapes, **kw):
    gen = torch.Generator().manual_seed(0)
    ps = [torch.nn.Parameter(torch.randn(s, generator=gen)) for s in shapes]
    return ps, gen, kw
def trial(name, shapes, **kw):
    ps, gen, kw = mk(shapes, **kw)
    named = lambda ps: [(f"p{i}", p) for i, p in enumerate(ps)]
    opt = DistributedShampoo(ps, **kw)
    for t in range(2):
        for p in ps: p.grad = torch.randn(p.shape, generator=gen)
        opt.step()
    sd = opt.distributed_state_dict(key_to_param=iter(named(ps)))
    print(name, "state keys:", {k: sorted(v.keys())[:6] for k, v in sd["state"].items()})
    ps2 = [torch.nn.Parameter(p.detach().clone()) for p in ps]
    opt2 = DistributedShampoo(ps2, **kw)
    try:
        opt2.load_distributed_state_dict(copy.deepcopy(sd), key_to_param=iter(named(ps2)))
        print("  load ok")
    except Exception as e:
        print("  load raised", type(e).__name__, e)
base = dict(lr=0.01, betas=(0.0,1.0), epsilon=1e-8, precondition_frequency=1, start_preconditioning_step=1, max_preconditioner_dim=8)
trial("0-D no merge, beta1=0", [(), (3,2)], use_merge_dims=False, **base)
trial("0-D no merge, graft", [(), (3,2)], use_merge_dims=False, grafting_config=AdaGradGraftingConfig(), **base)
trial("all ignored", [(3,2)], use_merge_dims=False, preconditioner_config=ShampooPreconditionerConfig(ignored_dims=[0,1]), **base)
trial("all ignored SOAP", [(3,2)], use_merge_dims=False, preconditioner_config=EigenvalueCorrectedShampooPreconditionerConfig(ignored_dims=[0,1]), **base)
trial("normal", [(3,2)], use_merge_dims=False, **base)
