import sys, time, torch, logging, resource, threading, faulthandler
sys.path.insert(0, "/tmp/exp")
from sim import run_world
from c06_lowprec import fn_factory, serial
from distributed_shampoo.shampoo_types import CommunicationDType
logging.disable(logging.CRITICAL)
hook = sys.excepthook
G = int(sys.argv[1]); t0 = time.time(); ref = {cp: serial(torch.float32, torch.float32, cp) for cp in (False, True)}
for i in range(300):
    res, errs, alive, world = run_world(4, fn_factory(torch.float32, CommunicationDType.FP32, bool(i%2), G), join_timeout=8)
    sys.excepthook = hook
    ok = not errs and not any(alive) and all(torch.equal(a, b) for r in range(4) for a, b in zip(res[r], ref[bool(i%2)]))
    if not ok:
        print("iteration", i, "alive", alive, "deadlock", world.deadlock, "states", world.state, {r: e[-400:] for r, e in errs.items()}, flush=True)
        faulthandler.dump_traceback(all_threads=True); break
    if i == 0: print("t2 violations recorded:", [(k, {r: v[0] for r, v in w.items()}, sorted({v[1] for v in w.values()})) for k, w in world.t2])
    if i % 100 == 99: print(i+1, f"{time.time()-t0:.1f}s", "maxrss MB", resource.getrusage(resource.RUSAGE_SELF).ru_maxrss//1024, "threads", threading.active_count(), flush=True)
