"""Prototype v2: gates resolved by the *resolver* (waiters marked running at resolution time)."""
import sys, threading, traceback
from unittest import mock
import torch, torch.distributed as dist
import torch.distributed.distributed_c10d as c10d
import torch.distributed.device_mesh as dm
from torch.testing._internal.distributed.multi_threaded_pg import _install_threaded_pg, _uninstall_threaded_pg, ProcessLocalGroup
from distributed_shampoo.utils import shampoo_dist_utils

class SimAbort(BaseException): pass

class World:
    RUN, WAIT, DONE = "run", "wait", "done"
    def __init__(self, W):
        self.W = W; self.cv = threading.Condition(); self.tl = threading.local()
        self.state = [self.RUN]*W; self.waiting_on = [None]*W
        self.gates = {}      # key -> dict(expected=set, arrived={rank: payload}, open=False, result=None)
        self.seq = [dict() for _ in range(W)]
        self.trace = [[] for _ in range(W)]
        self.t2 = []; self.deadlock = None; self.aborted = False
    def rank(self): return self.tl.rank
    def _open(self, key, result):
        g = self.gates[key]; g["open"] = True; g["result"] = result
        for r in g["arrived"]:
            if self.waiting_on[r] == key: self.state[r] = self.RUN; self.waiting_on[r] = None
        self.cv.notify_all()
    def _progress(self):
        """called with lock held after any state change"""
        while True:
            opened = False
            for key, g in self.gates.items():
                if not g["open"] and set(g["arrived"]) >= g["expected"]:
                    self._open(key, self._resolve(key, g, complete=True)); opened = True
            if opened: continue
            if any(s == self.RUN for s in self.state): return
            if all(s == self.DONE for s in self.state): return
            # quiescent and somebody waits: new_group waves may be resolved partially (contract violation), anything else is a deadlock
            pend = sorted((k for k, g in self.gates.items() if not g["open"] and k[0] == "new_group"), key=lambda k: k[1])
            if pend:
                self._open(pend[0], self._resolve(pend[0], self.gates[pend[0]], complete=False)); continue
            self.deadlock = {r: self.waiting_on[r] for r in range(self.W) if self.state[r] == self.WAIT}
            self.aborted = True; self.cv.notify_all(); return
    def _resolve(self, key, g, complete):
        if key[0] == "new_group":
            lists = {v[0] for v in g["arrived"].values()}
            ok = complete and len(lists) == 1
            if not ok: self.t2.append(dict(wave=key[1], calls={r: v for r, v in g["arrived"].items()}))
            return ok
        if key[0] == "all_gather":
            ranks = key[1]
            ins = [g["arrived"][r][1] for r in ranks]
            for r in ranks:
                out = g["arrived"][r][0]; n = ins[0].numel()
                for i, t in enumerate(ins): out[i*n:(i+1)*n].copy_(t)
            return True
        return True
    def gate(self, key, expected, payload):
        r = self.rank()
        with self.cv:
            if self.aborted: raise SimAbort()
            g = self.gates.setdefault(key, dict(expected=set(expected), arrived={}, open=False, result=None))
            g["arrived"][r] = payload
            if not g["open"]:
                self.state[r] = self.WAIT; self.waiting_on[r] = key
                self._progress()
                self.cv.wait_for(lambda: g["open"] or self.aborted)
                if not g["open"]: raise SimAbort()
            return g["result"]
    def nth(self, r, what):
        n = self.seq[r].get(what, 0); self.seq[r][what] = n+1; return n
    def barrier(self, k): self.gate(("barrier", k), range(self.W), None)
    def done(self):
        with self.cv:
            self.state[self.rank()] = self.DONE; self.waiting_on[self.rank()] = None; self._progress()

def run_world(W, fn, join_timeout=60):
    world = World(W)
    _install_threaded_pg(); torch._C._distributed_c10d._set_thread_isolation_mode(True)
    store = dist.HashStore(); results = [None]*W; errors = {}; hook = sys.excepthook
    real_new_group = c10d.new_group
    def ag(output, input, group=None, async_op=False):
        r = world.rank(); ranks = tuple(dist.get_process_group_ranks(group if group is not None else dist.group.WORLD))
        n = world.nth(r, ("ag", ranks))
        world.trace[r].append(("all_gather_into_tensor", ranks, n, output.numel()*output.element_size(), input.numel()*input.element_size()))
        world.gate(("all_gather", ranks, n), ranks, (output, input))
    def new_group(ranks=None, *a, **k):
        r = world.rank(); site = tuple(f.name for f in traceback.extract_stack() if "distributed_shampoo" in f.filename)[-2:]
        rl = tuple(ranks) if ranks is not None else None
        world.trace[r].append(("new_group", rl, site))
        collective = world.gate(("new_group", world.nth(r, "ng")), range(W), (rl, site))
        if not collective: k["use_local_synchronization"] = True
        return real_new_group(ranks, *a, **k)
    import distributed_shampoo.utils.shampoo_ddp_distributor as m1, distributed_shampoo.utils.shampoo_hsdp_distributor as m2, distributed_shampoo.utils.shampoo_hybrid_shard_distributor as m3
    raw = shampoo_dist_utils.get_device_mesh.__wrapped__; caches = [dict() for _ in range(W)]
    def gdm(device_type, mesh, mesh_dim_names=None):
        c = caches[world.rank()]; key = (device_type, mesh, mesh_dim_names)
        if key not in c: c[key] = raw(device_type=device_type, mesh=mesh, mesh_dim_names=mesh_dim_names)
        return c[key]
    def worker(rank):
        world.tl.rank = rank
        try:
            c10d.init_process_group(backend="threaded", rank=rank, world_size=W, store=store)
            results[rank] = fn(rank, world)
        except SimAbort: errors[rank] = "abort"
        except BaseException:
            errors[rank] = traceback.format_exc()
            with world.cv: world.aborted = True; world.cv.notify_all()
        finally:
            world.done()
            try: c10d.destroy_process_group()
            except Exception: pass
    with mock.patch.object(m1, "get_device_mesh", gdm), mock.patch.object(m2, "get_device_mesh", gdm), mock.patch.object(m3, "get_device_mesh", gdm), \
         mock.patch.object(dist, "all_gather_into_tensor", ag), mock.patch.object(c10d, "new_group", new_group), mock.patch.object(dm, "new_group", new_group), mock.patch.object(dist, "new_group", new_group):
        ths = [threading.Thread(target=worker, args=(r,), daemon=True) for r in range(W)]
        [t.start() for t in ths]; [t.join(join_timeout) for t in ths]
    alive = [t.is_alive() for t in ths]
    torch._C._distributed_c10d._set_thread_isolation_mode(False); _uninstall_threaded_pg(); ProcessLocalGroup.reset(); sys.excepthook = hook
    return results, errors, alive, world
