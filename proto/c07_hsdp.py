import sys, torch, logging, math
sys.path.insert(0, "/tmp/exp")
from sim import run_world
from torch.distributed.device_mesh import init_device_mesh
from torch.distributed.fsdp import ShardingStrategy
import torch.distributed as dist
from distributed_shampoo.distributed_shampoo import DistributedShampoo
from distributed_shampoo.shampoo_types import HSDPShampooConfig, FSDPShampooConfig, AdaGradGraftingConfig, FSDPParameterMetadata
from distributed_shampoo.utils.shampoo_fsdp_distributor import FSDPDistributor
logging.disable(logging.CRITICAL)
shapes = [(5,4),(7,),(3,2,3)]
T = 4
def full_data():
    gen = torch.Generator().manual_seed(0)
    params = [torch.randn(s, generator=gen) for s in shapes]
    grads = [[torch.randn(s, generator=gen) for s in shapes] for _ in range(T)]
    return params, grads
def shard_ranges(S):
    numels = [math.prod(s) for s in shapes]; total = sum(numels); c = -(-total//S)
    offs = [0]
    for n in numels: offs.append(offs[-1]+n)
    out = []
    for r in range(S):
        lo, hi = r*c, min((r+1)*c, total)
        out.append([(max(lo, offs[i]) - offs[i], max(min(hi, offs[i+1]) - offs[i], max(lo, offs[i]) - offs[i])) if max(lo,offs[i]) < min(hi, offs[i+1]) else (0,0) for i in range(len(shapes))])
    return out
kw = dict(lr=0.01, betas=(0.9,1.0), epsilon=1e-8, max_preconditioner_dim=3, precondition_frequency=1, start_preconditioning_step=2, grafting_config=AdaGradGraftingConfig(epsilon=1e-8))
def serial_oracle(S):
    # serial optimizer on recovered sub-tensors as independent params, per shard rank
    params, grads = full_data(); out = []
    for s in range(S):
        rng = shard_ranges(S)[s]
        sub_p, sub_g = [], [[] for _ in range(T)]
        flats = []
        for i, (a,b) in enumerate(rng):
            flat = params[i].reshape(-1)[a:b].clone(); flats.append(flat)
            if b > a:
                blocks = FSDPDistributor._split_tensor_block_recovery(flat, torch.Size(shapes[i]), a, b)   # NOTE prototype only: real oracle will use independent reference
                sub_p += [torch.nn.Parameter(x.clone()) for x in blocks]
                for t in range(T):
                    sub_g[t] += [x.clone() for x in FSDPDistributor._split_tensor_block_recovery(grads[t][i].reshape(-1)[a:b].clone(), torch.Size(shapes[i]), a, b)]
        opt = DistributedShampoo(sub_p, **kw)
        for t in range(T):
            for p, g in zip(sub_p, sub_g[t]): p.grad = g
            opt.step()
        out.append(torch.cat([p.detach().reshape(-1) for p in sub_p]))
    return out
def fn_factory(R, S, G):
    def fn(rank, world):
        mesh = init_device_mesh("cpu", (R, S), mesh_dim_names=("replicate", "shard"))
        s = mesh.get_local_rank(1)
        params, grads = full_data()
        rng = shard_ranges(S)[s]
        ps = [torch.nn.Parameter(params[i].reshape(-1)[a:b].clone()) for i, (a,b) in enumerate(rng)]
        meta = {p: FSDPParameterMetadata(fqn=f"p{i}", shape=torch.Size(shapes[i]), numel=math.prod(shapes[i]), start_idx=rng[i][0], end_idx=rng[i][1], sharding_strategy=ShardingStrategy.HYBRID_SHARD) for i, p in enumerate(ps)}
        opt = DistributedShampoo(ps, distributed_config=HSDPShampooConfig(param_to_metadata=meta, device_mesh=mesh, num_trainers_per_group=G), **kw)
        for t in range(T):
            for i, p in enumerate(ps): p.grad = grads[t][i].reshape(-1)[rng[i][0]:rng[i][1]].clone()
            opt.step(); world.barrier(t)
        return s, torch.cat([p.detach().reshape(-1) for p in ps])
    return fn
R, S, G = map(int, sys.argv[1:4])
oracle = serial_oracle(S)
res, errs, alive, world = run_world(R*S, fn_factory(R, S, G), join_timeout=15)
print("alive", alive, "deadlock", world.deadlock)
for r, e in errs.items(): print("ERR", r, e[-1200:])
for r, x in enumerate(res):
    if x: print(r, "shard", x[0], "equal serial:", torch.equal(x[1], oracle[x[0]]), (x[1]-oracle[x[0]]).abs().max().item())
print("rank0 log:", [l for l in world.log[0] if l[0]=="new_group"])
print("rank1 log:", [l for l in world.log[1] if l[0]=="new_group"])
