import torch, logging, sys
from unittest import mock
logging.disable(logging.CRITICAL)
from distributed_shampoo.distributed_shampoo import DistributedShampoo
from distributed_shampoo.shampoo_types import ShampooPreconditionerConfig
import distributed_shampoo.utils.shampoo_preconditioner_list as pl
torch.manual_seed(0)
ps = [torch.nn.Parameter(torch.randn(3, 2)) for _ in range(2)]
opt = DistributedShampoo(ps, lr=0.01, betas=(0.0, 1.0), epsilon=1e-6, precondition_frequency=1, start_preconditioning_step=1,
    preconditioner_config=ShampooPreconditionerConfig(num_tolerated_failed_amortized_computations=1))
real = pl.matrix_inverse_root
calls = {"n": 0}
def fake(*a, **k):
    calls["n"] += 1
    if calls["n"] <= 2: raise RuntimeError("injected")   # the first two calls of every refresh = both factors of block 0
    return real(*a, **k)
with mock.patch.object(pl, "matrix_inverse_root", fake):
    for t in range(6):
        calls["n"] = 0
        ps[0].grad = torch.randn(3, 2)
        ps[1].grad = torch.randn(3, 2) if t % 2 == 0 else None   # block 1 alternates present/absent
        try: opt.step()
        except ValueError as e:
            print("step", t + 1, "raised as required:", str(e)[:60]); sys.exit(0)
print("block 0 failed at 6 consecutive refreshes with tolerance 1 and no error was raised"); sys.exit(1)
