import torch, logging
from unittest import mock
from distributed_shampoo.distributed_shampoo import DistributedShampoo
from distributed_shampoo.shampoo_types import ShampooPreconditionerConfig
import distributed_shampoo.utils.shampoo_preconditioner_list as pl
logging.disable(logging.CRITICAL)
def run(mask_script, tol=1):
    gen = torch.Generator().manual_seed(0)
    ps = [torch.nn.Parameter(torch.randn(3,3, generator=gen)) for _ in range(2)]
    opt = DistributedShampoo(ps, lr=0.01, betas=(0.0,1.0), epsilon=1e-8, precondition_frequency=1, start_preconditioning_step=1, max_preconditioner_dim=8, use_merge_dims=False,
        preconditioner_config=ShampooPreconditionerConfig(num_tolerated_failed_amortized_computations=tol))
    with mock.patch.object(pl, "matrix_inverse_root", side_effect=ValueError("injected")):
        for t, mask in enumerate(mask_script):
            for p, m in zip(ps, mask):
                p.grad = torch.randn(3,3, generator=gen) if m else None
            try:
                opt.step()
                print("  step", t+1, mask, "no raise")
            except Exception as e:
                print("  step", t+1, mask, "raised", type(e).__name__, str(e)[:60]); return
print("constant mask, tol=1: expect raise at 2nd refresh"); run([(1,1)]*4)
print("alternating mask of p1; p0 always active and always failing, tol=1"); run([(1,1),(1,0),(1,1),(1,0),(1,1),(1,0)])
