import torch, logging, sys
sys.path.insert(0, "/tmp/exp")
from hypothesis import given, settings, strategies as st, HealthCheck, seed
from c09 import cfg, build, shape_st
from optimizer_modules import OptimizerModule
logging.disable(logging.CRITICAL); torch.set_num_threads(1)
def walk(o, path, acc):
    if isinstance(o, torch.Tensor): acc[path] = o
    elif isinstance(o, OptimizerModule): [walk(v, path+(k,), acc) for k, v in o.__dict__.items()]
    elif isinstance(o, dict): [walk(v, path+(k,), acc) for k, v in o.items()]
    elif isinstance(o, (list, tuple)): [walk(v, path+(i,), acc) for i, v in enumerate(o)]
    return acc
stats = dict(cases=0, maskchange=0, allabsent=0)
@seed(4)
@settings(max_examples=400, deadline=None, database=None, suppress_health_check=list(HealthCheck))
@given(cfg, shape_st, st.integers(2, 4), st.integers(0, 10**6), st.lists(st.lists(st.booleans(), min_size=4, max_size=4), min_size=3, max_size=8))
def test(c, shape, n, sd_, masks):
    gen = torch.Generator().manual_seed(sd_)
    ps = [torch.nn.Parameter(torch.randn(shape, generator=gen)) for _ in range(n)]
    opt = build(ps, c)
    stats["cases"] += 1
    prevm = None
    for mask in masks:
        mask = mask[:n]
        if prevm is not None and mask != prevm and any(mask) and any(prevm): stats["maskchange"] += 1
        if not any(mask): stats["allabsent"] += 1
        prevm = mask
        before = [{k: v.clone() for k, v in walk(opt.state[p], (), {}).items()} for p in ps]
        pb = [p.detach().clone() for p in ps]
        step_before = opt.state[ps[0]]["step"].item()
        for p, m in zip(ps, mask): p.grad = torch.randn(shape, generator=gen) if m else None
        opt.step()
        assert opt.state[ps[0]]["step"].item() == step_before + (1 if any(mask) else 0)
        for i, (p, m) in enumerate(zip(ps, mask)):
            if m: continue
            assert torch.equal(p.detach(), pb[i]), "param changed"
            after = walk(opt.state[p], (), {})
            assert after.keys() == before[i].keys()
            for k in after:
                if k == ("step",): continue
                assert torch.equal(after[k], before[i][k]), ("state changed", k, c)
test(); print("C04 proto ok", stats)

@seed(5)
@settings(max_examples=150, deadline=None, database=None, suppress_health_check=list(HealthCheck))
@given(cfg, cfg, st.lists(shape_st, min_size=1, max_size=2), st.lists(shape_st, min_size=1, max_size=2), st.integers(0, 10**6), st.integers(2, 6))
def test_groups(c1, c2, s1, s2, sd_, T):
    # one optimizer with two groups (group 2 overrides lr/momentum/weight decay/betas) vs two optimizers
    gen = torch.Generator().manual_seed(sd_)
    P1 = [torch.randn(s, generator=gen) for s in s1]; P2 = [torch.randn(s, generator=gen) for s in s2]
    a1 = [torch.nn.Parameter(p.clone()) for p in P1]; a2 = [torch.nn.Parameter(p.clone()) for p in P2]
    b1 = [torch.nn.Parameter(p.clone()) for p in P1]; b2 = [torch.nn.Parameter(p.clone()) for p in P2]
    over = dict(lr=0.05, weight_decay=c2["wd"], betas=(c1["beta1"] and 0.8, c2["beta2"]), epsilon=1e-4, use_nesterov=c2["nesterov"], precondition_frequency=c1["freq"])
    A = build([dict(params=a1), dict(params=a2, **over)], c1)
    B1 = build(b1, c1)
    from distributed_shampoo.distributed_shampoo import DistributedShampoo
    g = A.param_groups[1]
    B2 = DistributedShampoo(b2, **{k: v for k, v in g.items() if k not in ("params", "betas", "max_preconditioner_dim") and not k.startswith("_")}, betas=g["betas"], max_preconditioner_dim=g["max_preconditioner_dim"]) if True else None
    for t in range(T):
        for a, b in zip(a1+a2, b1+b2):
            gg = torch.randn(a.shape, generator=gen); a.grad = gg.clone(); b.grad = gg.clone()
        A.step(); B1.step(); B2.step()
        for a, b in zip(a1+a2, b1+b2): assert torch.equal(a, b), (c1, over, t)
test_groups(); print("multi-group proto ok")
