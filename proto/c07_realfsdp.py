import sys, torch, logging, math
sys.path.insert(0, "/tmp/exp")
from sim import run_world
import torch.distributed as dist
from torch.distributed.fsdp import FullyShardedDataParallel as FSDP, ShardingStrategy
from distributed_shampoo.utils.shampoo_fsdp_utils import compile_fsdp_parameter_metadata
logging.disable(logging.CRITICAL)
def fn(rank, world):
    gen = torch.Generator().manual_seed(0)
    model = torch.nn.Sequential(torch.nn.Linear(5, 3, bias=True), torch.nn.Linear(3, 2, bias=False))
    with torch.no_grad():
        for p in model.parameters(): p.copy_(torch.randn(p.shape, generator=gen))
    m = FSDP(model, use_orig_params=True, device_id=torch.device("cpu"))
    md = compile_fsdp_parameter_metadata(m)
    return [(v.fqn, tuple(v.shape), v.numel, v.start_idx, v.end_idx, tuple(p.shape)) for p, v in md.items()]
W = int(sys.argv[1])
res, errs, alive, world = run_world(W, fn, join_timeout=20)
print("alive", alive)
for r, e in errs.items(): print("ERR", r, e[-1500:])
for r, x in enumerate(res): print(r, x)
