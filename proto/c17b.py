import math, torch, logging
from distributed_shampoo.distributed_shampoo import DistributedShampoo
from distributed_shampoo.shampoo_types import *
from matrix_functions_types import *
logging.disable(logging.CRITICAL)
nan, inf, na = float("nan"), float("inf"), math.nextafter
bad = 0
def expect(f, ok, label):
    global bad
    try: f(); got = True
    except ValueError: got = False
    except Exception as e: got = type(e).__name__
    if got is not ok: bad += 1; print("MISMATCH", label, "expected", ok, "got", got)
for eps in [0.0, na(0.0, 1), 1e-10, 1.0, -1e-10, nan, inf]:
    ok = eps > 0
    for cls in (AdaGradGraftingConfig, RMSpropGraftingConfig, AdamGraftingConfig): expect(lambda: cls(epsilon=eps), ok, (cls.__name__, "eps", eps))
for b2 in [0.0, na(0.0, 1), 0.5, 1.0, na(1.0, 2), -0.1, nan]:
    ok = 0 < b2 <= 1
    for cls in (RMSpropGraftingConfig, AdamGraftingConfig): expect(lambda: cls(beta2=b2), ok, (cls.__name__, "beta2", b2))
for n in [-1, 0, 1, 3]:
    for cls in (ShampooPreconditionerConfig, EigenvalueCorrectedShampooPreconditionerConfig): expect(lambda: cls(num_tolerated_failed_amortized_computations=n), n >= 0, (cls.__name__, "tol", n))
for ig in [[], [0], [0, 1], [0, 0], [1, 1, 2]]:
    expect(lambda: ShampooPreconditionerConfig(ignored_dims=ig), len(ig) == len(set(ig)), ("ignored", ig))
# ignored dims only with default override
p = lambda: [torch.nn.Parameter(torch.zeros(3, 2))]
for o in [0, 2, [2, 2], []]:
    expect(lambda: DistributedShampoo(p(), preconditioner_config=ShampooPreconditionerConfig(ignored_dims=[0]), inv_root_override=o), o == 0, ("ignored+override", o))
# unsupported types -> NotImplementedError
from dataclasses import dataclass, field
@dataclass
class MyGraft(GraftingConfig): pass
@dataclass(kw_only=True)
class MyPre(PreconditionerConfig):
    amortized_computation_config: RootInvConfig = field(default_factory=lambda: DefaultEigenConfig)
@dataclass
class MyDist(DistributedConfig): pass
for label, f in (("graft", lambda: DistributedShampoo(p(), grafting_config=MyGraft())), ("pre", lambda: DistributedShampoo(p(), preconditioner_config=MyPre())), ("dist", lambda: DistributedShampoo(p(), distributed_config=MyDist()))):
    try: f(); print("MISMATCH", label, "accepted"); bad += 1
    except NotImplementedError: pass
    except Exception as e: print("MISMATCH", label, type(e).__name__, e); bad += 1
print("config-class checks done, mismatches:", bad)
