import torch, logging, sys
logging.disable(logging.CRITICAL)
from distributed_shampoo.distributed_shampoo import DistributedShampoo
from distributed_shampoo.shampoo_types import EigenvalueCorrectedShampooPreconditionerConfig
from matrix_functions_types import QRConfig
torch.manual_seed(0)
p = torch.nn.Parameter(torch.randn(3, 2, dtype=torch.float64))
opt = DistributedShampoo([p], lr=0.01, betas=(0.0, 0.9), epsilon=1e-8, precondition_frequency=1, start_preconditioning_step=1,
    preconditioner_dtype=torch.float32, preconditioner_config=EigenvalueCorrectedShampooPreconditionerConfig(amortized_computation_config=QRConfig(), num_tolerated_failed_amortized_computations=1))
try:
    for t in range(4):
        p.grad = torch.randn(3, 2, dtype=torch.float64); opt.step()
        Q = opt.state[p]["block_0"]["shampoo"].factor_matrices_eigenvectors[0]
        print(t, Q.flatten()[:3].tolist())
except Exception as e:
    print("RAISED", type(e).__name__, str(e)[:100]); sys.exit(1)
