import sys, time, torch, logging, resource, threading, faulthandler
sys.path.insert(0, "/tmp/exp")
from sim import run_world
from c06_lowprec import fn_factory
from distributed_shampoo.shampoo_types import CommunicationDType
logging.disable(logging.CRITICAL)
hook = sys.excepthook
for i in range(400):
    res, errs, alive, world = run_world(4, fn_factory(torch.float32, CommunicationDType.FP32, bool(i%2), 2), join_timeout=8)
    sys.excepthook = hook
    if errs or any(alive):
        print("iteration", i, "alive", alive, "deadlock", world.deadlock, "states", world.state, flush=True)
        faulthandler.dump_traceback(all_threads=True)
        break
