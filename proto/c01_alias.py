import torch, logging
from distributed_shampoo.distributed_shampoo import DistributedShampoo
from distributed_shampoo.shampoo_types import SGDGraftingConfig, AdaGradGraftingConfig, ShampooPreconditionerConfig
logging.disable(logging.CRITICAL)
def run(**kw):
    gen = torch.Generator().manual_seed(0)
    p = torch.nn.Parameter(torch.randn(4,3, generator=gen))
    opt = DistributedShampoo([p], lr=0.1, betas=(0.9,1.0), epsilon=1e-8, precondition_frequency=1, start_preconditioning_step=100, **kw)
    fg_expected = torch.zeros(4,3)
    for t in range(3):
        g = torch.randn(4,3, generator=gen); p.grad = g.clone()
        opt.step()
        fg_expected = 0.9*fg_expected + 0.1*g
        fg = opt.state[p]["block_0"]["filtered_grad"]
        print(t, "filtered_grad max dev from EMA:", (fg.reshape(-1)-fg_expected.reshape(-1)).abs().max().item())
print("SGD graft, no bias corr"); run(grafting_config=SGDGraftingConfig(), use_bias_correction=False)
print("SGD graft, bias corr"); run(grafting_config=SGDGraftingConfig(), use_bias_correction=True)
print("Adagrad graft, no bias corr"); run(grafting_config=AdaGradGraftingConfig(), use_bias_correction=False)
# shampoo with all dims ignored, after start
def run2(**kw):
    gen = torch.Generator().manual_seed(0)
    p = torch.nn.Parameter(torch.randn(4,3, generator=gen))
    opt = DistributedShampoo([p], lr=0.1, betas=(0.9,1.0), epsilon=1e-8, precondition_frequency=1, start_preconditioning_step=1, use_bias_correction=False, **kw)
    fg_expected = torch.zeros(4,3)
    for t in range(3):
        g = torch.randn(4,3, generator=gen); p.grad = g.clone()
        opt.step()
        fg_expected = 0.9*fg_expected + 0.1*g
        fg = opt.state[p]["block_0"]["filtered_grad"]
        print(t, "filtered_grad max dev from EMA:", (fg.reshape(-1)-fg_expected.reshape(-1)).abs().max().item())
print("Shampoo all dims ignored"); run2(preconditioner_config=ShampooPreconditionerConfig(ignored_dims=[0,1]))
print("Shampoo dim0 ignored"); run2(preconditioner_config=ShampooPreconditionerConfig(ignored_dims=[0]))
def run3():
    gen = torch.Generator().manual_seed(0)
    p = torch.nn.Parameter(torch.randn((), generator=gen))
    opt = DistributedShampoo([p], lr=0.1, betas=(0.9,1.0), epsilon=1e-8, precondition_frequency=1, start_preconditioning_step=1, use_bias_correction=False, use_merge_dims=False)
    fg_expected = torch.zeros(())
    for t in range(3):
        g = torch.randn((), generator=gen); p.grad = g.clone()
        opt.step()
        fg_expected = 0.9*fg_expected + 0.1*g
        fg = opt.state[p]["block_0"]["filtered_grad"]
        print(t, "filtered_grad max dev from EMA:", (fg.reshape(-1)-fg_expected.reshape(-1)).abs().max().item())
print("0-D param no merge"); run3()
