#!/bin/bash
# Offline setup: verify that the interpreter has what the checks import; install hypothesis from the
# local wheelhouse into /verif/.deps only if /venv lacks it. Nothing is fetched from a network.
cd "$(dirname "${BASH_SOURCE[0]}")" || exit 1
PY="${VERIF_PYTHON:-/venv/bin/python}"
export PIP_NO_INDEX=1
if ! PYTHONPATH="$PWD/.deps" "$PY" -c "import hypothesis" 2>/dev/null; then
  mkdir -p .deps
  /venv/bin/pip install --no-index --find-links /opt/veriftools/wheels --target .deps hypothesis || exit 1
fi
PYTHONPATH="${VERIF_REPO:-/repo}:$PWD:$PWD/.deps" "$PY" - <<'PY' || exit 1
import torch, hypothesis, numpy, mpmath
import distributed_shampoo, matrix_functions, optimizer_modules
import vf.runner
print("setup ok: torch", torch.__version__, "hypothesis", hypothesis.__version__, "repo", distributed_shampoo.__file__)
PY
chmod +x check tools/*.py 2>/dev/null
exit 0
