"""C06 - DDP Shampoo equals serial Shampoo and keeps replicas identical.

Simulated multi-rank worlds (vf/sim.py) over generated (world size, group size, communication options, optimizer configuration, parameter set,
gradient / presence history).  After every step: (a) every rank's parameters are bitwise those of the single-process optimizer (with reduced-precision
communication: of the single-process optimizer with a rounding shim on the communicated quantity); (b) replicas identical; (c) all ranks of a process
group issue the same collective sequence; (d) process-group creation is collective; (e) no rank is left waiting (deadlock monitor, no timeouts).
Open findings F5 (starvation) and F6 (non-collective mesh creation) are excluded by construction from the main stream and kept visible by probes.
"""
from __future__ import annotations

from typing import Any

from .. import dist_common as dc, gen
from ..core import Outcome, Stream

LEVEL = "exploration"
RULE = (
    "case = (world size 1..4 quick / 1..8 thorough, num_trainers_per_group in divisors or -1, communicate_params on/off, communication dtype "
    "DEFAULT/FP32/FP16/BF16, parameter dtype, optimizer configuration (Shampoo and SOAP, grafting, momentum, decay), 2-6 parameters blocked so that every "
    "rank owns a block, history of 3-8 steps with presence masks). Non-trivial = world size >= 2, group size >= 2 and >= 1 refresh step. Starving masks "
    "(open finding F5) are repaired and counted as excluded; F6-signature process-group mismatches are counted as excluded. Distinct = canonical JSON."
)
BOUNDS = "W <= 4 (quick) / 8 (thorough), <= 6 parameters, numel <= 120 (big_buffers: one block of 1030x1030 .. 2047x1025, warm-up only), <= 8 steps; thread backend, CPU"
ASSUMPTIONS = [
    "ranks share no mutable state and interact only through collectives, so matching collective sequences (T1) and collective group creation (T2) imply timing independence (DESIGN 5.4)",
    "torch.testing._internal.distributed.multi_threaded_pg provides faithful process-group / DeviceMesh / DTensor bookkeeping",
    "block-to-rank ownership used for the starvation repair is the C14 reference assignment",
]
NONTRIVIAL_FLOOR = 10


def _strategy(maxW: int):
    from hypothesis import strategies as st

    @st.composite
    def case(draw: Any) -> dict:
        W = draw(st.sampled_from([w for w in (4, 2, 3, 4, 2, 1, 6, 8, 8) if w <= maxW]))
        divs = [d for d in range(W, 0, -1) if W % d == 0]
        G = draw(st.sampled_from([-1] + divs + [d for d in divs if 1 < d < W]))
        cfg = draw(gen.st_config(dtypes=(("f32", "f32"), ("f32", "f32"), ("f64", "f64"), ("bf16", "f32"), ("f64", "f32")), solvers=("eigen", "eigen", "eigen_stab"),
                                 kinds=("shampoo", "shampoo", "soap"), max_mpd=5))
        gsz = W if G == -1 else G
        npar = draw(st.integers(max(2, min(gsz, 6)), 6))
        shapes = [draw(gen.st_shape(cfg["mpd"], max_order=3, max_numel=120, min_order=0)) for _ in range(npar)]
        T = draw(st.integers(3, 8))
        steps = draw(st.lists(gen.st_step(npar, cfg["gscale"], edits=False), min_size=T, max_size=T))
        if draw(st.integers(0, 4)) == 0:
            # class "many blocks": a leading parameter split into > 64 blocks that always has a gradient, followed by small parameters whose
            # gradients come and go - selector bookkeeping beyond the first few dozen entries
            cfg["mpd"] = draw(st.sampled_from([1, 2]))
            cfg["merge"] = False
            shapes = [draw(st.sampled_from([[70], [36, 2], [9, 8], [130]]))] + [draw(st.sampled_from([[2], [2, 2], [3]])) for _ in range(draw(st.integers(2, 4)))]
            npar = len(shapes)
            steps = []
            for _ in range(T):
                st_ = draw(gen.st_step(npar, cfg["gscale"], edits=False, allow_absent=False))
                st_["mask"] = [True] + [draw(st.booleans()) for _ in range(npar - 1)]
                steps.append(st_)
        dc.st_param_edits(draw, steps, len(shapes))
        return dc.st_exponent_range_class(draw, {"flavour": "ddp", "R": W, "S": 1, "G": G, "comm_params": draw(st.booleans()), "comm_dtype": draw(st.sampled_from(["default", "fp32", "fp16", "bf16"])),
                "cfg": cfg, "shapes": shapes, "pseed": draw(st.integers(0, 10**5)), "steps": steps, "repair": True,
                "pdtypes": (draw(st.one_of(st.lists(st.sampled_from(["bf16", "f32", "f32", "f16"]), min_size=len(shapes), max_size=len(shapes)), st.just(["f16"] * len(shapes))))
                            if (draw(st.sampled_from([False] * 4 + [True])) and cfg["pdtype"] in ("f32", "bf16")) else None)})

    return case()


def strategy_big():
    """A block whose all-gather buffer exceeds a few MiB next to small blocks (uneven loads): sizes at which implementations start to slice, chunk or
    re-order collectives.  Warm-up only (start step beyond the history), so no 1100x1100 eigendecompositions are needed."""
    from hypothesis import strategies as st

    @st.composite
    def case(draw: Any) -> dict:
        W = draw(st.sampled_from([2, 2, 3, 4]))
        G = draw(st.sampled_from([-1, -1, 2])) if W == 4 else -1
        cfg = dict(_BASE_CFG, mpd=2048, start=gen.INF_STEP, graft=draw(st.sampled_from([{"type": "sgd"}, {"type": "adagrad", "eps": 1e-8}, {"type": "adam", "eps": 1e-8, "beta2": 0.99}])),
                   beta1=draw(st.sampled_from([0.0, 0.9])), momentum=draw(st.sampled_from([0.0, 0.5])))
        big = draw(st.sampled_from([[1100, 1100], [1030, 1030], [1500, 800], [2047, 1025]]))
        shapes = [big] + [draw(st.sampled_from([[2, 2], [3], [40, 40], [300, 300]])) for _ in range(draw(st.integers(1, 3)))]
        if draw(st.booleans()):
            shapes.append([1040, 1040])
        if draw(st.booleans()):
            shapes = shapes[::-1]
        T = draw(st.integers(2, 3))
        steps = [dict(draw(gen.st_step(len(shapes), 1.0, edits=False, allow_absent=False)), gkind="gauss") for _ in range(T)]
        return {"flavour": "ddp", "R": W, "S": 1, "G": G, "comm_params": draw(st.booleans()), "comm_dtype": draw(st.sampled_from(["default", "fp32", "default", "bf16"])),
                "cfg": cfg, "shapes": shapes, "pseed": draw(st.integers(0, 10**5)), "steps": steps, "repair": True, "pdtypes": None}

    return case()


def strategy():
    return _strategy(4)


def strategy_thorough():
    return _strategy(8)


def oracle(case: dict) -> Outcome:
    out, info = dc.run_case(case, "C06")
    pb = info.get("pb")
    if pb is None:
        return out
    out.classes += dc.world_classes(pb, info["traces"])
    from .. import refmodel as rm

    t = 0
    refresh = False
    for st in pb.steps:
        if any(st["mask"]):
            t += 1
            refresh = refresh or rm.is_refresh(t, pb.eff["start"], pb.eff["freq"])
    out.nontrivial = pb.W >= 2 and pb.group_size >= 2 and refresh and "rejected_some_rank_without_block" not in out.classes
    return out


def oracle_big(case: dict) -> Outcome:
    out = oracle(case)
    out.classes.append("all_gather_buffer_over_4MiB")
    out.nontrivial = case["R"] >= 2
    return out


# directed probes for the open findings (run in every tier; KNOWN-FINDING is printed only while they still fail)
_BASE_CFG = {"lr": 0.0078125, "beta1": 0.9, "beta2": 1.0, "beta3": -1.0, "epsilon": 1e-6, "momentum": 0.0, "dampening": 0.0, "nesterov": False, "wd": 0.0,
             "decoupled": True, "bias": True, "graft": {"type": "sgd"}, "mpd": 4, "merge": True, "freq": 1, "start": 2, "override": 0,
             "precond": {"kind": "shampoo", "solver": "eigen", "mult": 1.0, "ignored": [], "tol": 3}, "pdtype": "f32", "fdtype": "f32", "gscale": 1.0}
_STEP = {"gseed": 3, "gkind": "gauss", "gscale": 1.0}
PROBES = {
    # F5: W=2, two equal blocks -> one per rank; a step in which only parameter 0 has a gradient starves rank 1
    "F5": ("worlds", {"flavour": "ddp", "R": 2, "S": 1, "G": -1, "comm_params": False, "comm_dtype": "default", "cfg": _BASE_CFG, "shapes": [[4, 4], [4, 4]],
                      "pseed": 1, "steps": [dict(_STEP, mask=[True, True]), dict(_STEP, mask=[True, False]), dict(_STEP, mask=[True, True])], "repair": False, "probe": "F5"}),
    # F6: any DDP optimizer with group size > 1 creates per-owner meshes non-collectively
    "F6": ("worlds", {"flavour": "ddp", "R": 4, "S": 1, "G": 2, "comm_params": False, "comm_dtype": "default", "cfg": _BASE_CFG, "shapes": [[4, 4], [4, 4], [3]],
                      "pseed": 1, "steps": [dict(_STEP, mask=[True, True, True])], "repair": True, "probe": "F6"}),
    # F10: order-0 bfloat16 parameter without merging, bias-corrected filtering, bfloat16 communication
    "F10": ("worlds", {"flavour": "ddp", "R": 2, "S": 1, "G": -1, "comm_params": False, "comm_dtype": "bf16", "cfg": dict(_BASE_CFG, pdtype="bf16", merge=False, lr=1.0, graft=None, start=1),
                       "shapes": [[], []], "pseed": 0, "steps": [dict(_STEP, gseed=0, mask=[True, True])], "repair": True, "probe": "F10"}),
}


def oracle_with_probe(case: dict) -> Outcome:
    out = oracle(case)
    if case.get("probe") == "F6":
        # report the excluded F6-signature mismatches as the finding's failure
        _, info = dc.run_case(case, "C06")
        n = info["traces"]["t2_known_f6"]
        if n:
            out.fail("C06.d.new_group_collective", "process-group creation is not collective: DDPDistributor._allocate_zeros_distributed_tensor -> get_device_mesh",
                     f"{n} new_group waves in which the ranks disagree; all originate in _allocate_zeros_distributed_tensor")
    return out


STREAMS = {
    "worlds": Stream("worlds", oracle=oracle_with_probe, strategy=strategy, quick=640, thorough=0, shards_quick=16, shards_thorough=16),
    "big_buffers": Stream("big_buffers", oracle=lambda case: oracle_big(case), strategy=strategy_big, quick=12, thorough=96, shards_quick=4, shards_thorough=16),
    "worlds_large": Stream("worlds_large", oracle=oracle_with_probe, strategy=strategy_thorough, quick=0, thorough=3000, shards_quick=16, shards_thorough=16),
}
