"""C07 - FSDP/HSDP Shampoo equals serial Shampoo on the shard's recovered tensor blocks.

Simulated ranks over flattened parameter shards built by the harness's model of flat-parameter sharding (parameters concatenated, equal chunks per
shard rank: mid-row boundaries and empty shards arise naturally) together with FSDPParameterMetadata.  Oracle: each rank's flat shards after every step are
bitwise those of the single-process optimizer over the sub-tensors of the *reference* decomposition (vf/props/c15.reference_cuts, certified minimal by C15)
taken as independent parameters; HSDP additionally: replica agreement, collective traces, no rank left waiting, reduced-precision rounding shim.
"""
from __future__ import annotations

import math
from typing import Any

from .. import dist_common as dc, gen, refmodel as rm
from ..core import Outcome, Stream

LEVEL = "exploration"
RULE = (
    "case = (flavour fsdp | hsdp, shard count S 1..4 quick / 1..8 thorough, replicate size R with R*S <= 8, num_trainers_per_group dividing R, communication "
    "options, optimizer configuration, 2-5 original shapes of order 1-4, history of 3-6 steps with presence masks). Non-trivial = some shard boundary is not a multiple "
    "of the trailing-dims product of its parameter (the shard starts or ends mid-row). Every element of every parameter belongs to exactly one shard rank's "
    "serial oracle, so 'updated exactly once' is implied by bitwise equality on all shard ranks. Distinct = canonical JSON."
)
BOUNDS = "R*S <= 4 (quick) / 8 (thorough); numel <= 120 per parameter (long-rows class: rows of 259-700 elements, up to 7000 elements); <= 6 steps"
ASSUMPTIONS = ["flat-parameter sharding model: concatenation in parameter order, ceil(total/S) elements per rank (FSDP's padding lies after the last parameter)",
               "reference decomposition of C15", "simulator assumptions of C06"]
NONTRIVIAL_FLOOR = 10


def _sorted_columns(perm: list, R: int, S: int) -> list:
    """Historical name: until the repair of F11 (5a3df1a) generated meshes had to keep every replicate column ascending; now any permutation of the
    global ranks is a legal device mesh for the generator."""
    return list(perm)


def _strategy(maxW: int):
    from hypothesis import strategies as st

    @st.composite
    def case(draw: Any) -> dict:
        fl = draw(st.sampled_from(["fsdp", "hsdp", "hsdp"]))
        if fl == "fsdp":
            S, R, G = draw(st.sampled_from([s for s in (1, 2, 3, 4, 5, 8) if s <= maxW])), 1, -1
        else:
            S = draw(st.sampled_from([s for s in (1, 2, 2, 3, 4) if 2 * s <= maxW or s == 1]))
            R = draw(st.sampled_from([r for r in (2, 2, 3, 4, 1) if r * S <= maxW]))
            divs = [d for d in range(R, 0, -1) if R % d == 0]
            G = draw(st.sampled_from([-1] + divs))
        cfg = draw(gen.st_config(dtypes=(("f32", "f32"), ("f32", "f32"), ("f64", "f64"), ("bf16", "f32"), ("f64", "f32")), solvers=("eigen", "eigen", "eigen_stab"),
                                 kinds=("shampoo", "shampoo", "soap"), max_mpd=5))
        npar = draw(st.integers(2, 5))
        shapes = [draw(gen.st_shape(cfg["mpd"], max_order=4, max_numel=120, min_order=1)) for _ in range(npar)]
        T = draw(st.integers(3, 6))
        steps = draw(st.lists(gen.st_step(npar, cfg["gscale"], edits=False), min_size=T, max_size=T))
        if fl == "hsdp" and draw(st.integers(0, 4)) == 0:
            # class "many blocks": > 64 blocks per shard with a leading parameter that always has a gradient (selector bookkeeping at scale)
            cfg["mpd"] = draw(st.sampled_from([1, 2]))
            cfg["merge"] = False
            shapes = [draw(st.sampled_from([[70 * S], [36 * S, 2], [9 * S, 8]]))] + [draw(st.sampled_from([[2 * S], [2 * S, 2], [3 * S]])) for _ in range(draw(st.integers(2, 4)))]
            npar = len(shapes)
            steps = []
            for _ in range(T):
                st_ = draw(gen.st_step(npar, cfg["gscale"], edits=False, allow_absent=False))
                st_["mask"] = [True] + [draw(st.booleans()) for _ in range(npar - 1)]
                steps.append(st_)
        elif S >= 2 and draw(st.sampled_from([False, False, False, True] if fl == "fsdp" else [False] * 7 + [True])):
            # class "long rows": rows of several hundred elements, so that shard boundaries fall hundreds of elements into a row and a shard can hold the
            # tail of one row and the head of the next without a complete row (index arithmetic beyond the small-integer range)
            cfg["mpd"], cfg["merge"] = 1024, draw(st.booleans())
            cfg["start"], cfg["freq"] = 1, 1
            cfg["precond"] = dict(cfg["precond"], ignored=[])
            cfg["override"] = 0
            # a shard shorter than two rows (rows between S and 2S) makes "crosses one row boundary, holds no complete row" likely
            shapes = [[draw(st.one_of(st.integers(S + 1, 2 * S), st.integers(3, 10))), draw(st.sampled_from([300, 512, 520, 700, 259]))] for _ in range(draw(st.integers(1, 2)))]
            if draw(st.booleans()):
                shapes = [[S + 1, draw(st.sampled_from([512, 520, 700]))]]  # one parameter whose shards are 1 + 1/S rows long
            elif draw(st.booleans()):
                shapes.append([draw(st.integers(2, 4)), draw(st.sampled_from([2, 3])), draw(st.sampled_from([130, 171]))])
            npar = len(shapes)
            T = 3
            steps = [draw(gen.st_step(npar, cfg["gscale"], edits=False, allow_absent=False)) for _ in range(T)]
        dc.st_param_edits(draw, steps, len(shapes))
        return dc.st_exponent_range_class(draw, {"flavour": fl, "R": R, "S": S, "G": G, "comm_params": draw(st.booleans()), "comm_dtype": draw(st.sampled_from(["default", "fp32", "fp16", "bf16"])),
                "cfg": cfg, "shapes": shapes, "pseed": draw(st.integers(0, 10**5)), "steps": steps, "repair": True,
                "pdtypes": (draw(st.one_of(st.lists(st.sampled_from(["bf16", "f32", "f32", "f16"]), min_size=len(shapes), max_size=len(shapes)), st.just(["f16"] * len(shapes))))
                            if (draw(st.sampled_from([False] * 4 + [True])) and cfg["pdtype"] in ("f32", "bf16")) else None),
                "mesh_perm": (_sorted_columns(draw(st.permutations(list(range(R * S)))), R, S) if (R * S > 1 and fl in ("hsdp", "hybrid_shard") and draw(st.integers(0, 3)) == 0) else None)})

    return case()


def strategy():
    return _strategy(4)


def strategy_thorough():
    return _strategy(8)


def oracle(case: dict) -> Outcome:
    out, info = dc.run_case(case, "C07")
    if any(len(sh) >= 2 and math.prod(sh[1:]) >= 258 for sh in case["shapes"]):
        out.classes.append("rows_longer_than_256_elements")
    pb = info.get("pb")
    if pb is None:
        return out
    out.classes += dc.world_classes(pb, info["traces"])
    midrow = False
    empty = False
    for s in range(pb.S):
        for i, (a, b) in enumerate(pb.ranges[s]):
            row = math.prod(pb.shapes[i][1:]) if len(pb.shapes[i]) > 1 else 1
            if b > a and len(pb.shapes[i]) > 1 and (a % row or b % row):
                midrow = True
            if b == a:
                empty = True
    out.nontrivial = midrow and "rejected_some_rank_without_block" not in out.classes
    if empty:
        out.classes.append("empty_local_shard")
    if midrow:
        out.classes.append("mid_row_boundary")
    # (c) parameters with an empty local shard own no blocks and no state
    for r, res in enumerate(info.get("results") or []):
        if res is None:
            continue
        s = res["s"]
        for i, (a, b) in enumerate(pb.ranges[s]):
            if b == a and res["state_blocks"].get(i):
                out.fail("C07.c.empty_shard_ignored", "a parameter with an empty local shard has optimizer state blocks", f"rank {r} param {i}: {res['state_blocks'][i]}")
    _ = rm
    return out


# --------------------------------------------------------------------------- shards and metadata taken from real FSDP
def strategy_real():
    from hypothesis import strategies as st

    return st.fixed_dictionaries({
        "S": st.sampled_from([2, 2, 3, 4]),
        "layers": st.lists(st.tuples(st.integers(1, 6), st.integers(1, 6), st.booleans()), min_size=1, max_size=3),
        "cfg_seed": st.integers(0, 10**5), "steps": st.integers(2, 4), "mpd": st.sampled_from([2, 3, 4, 1024]), "graft": st.sampled_from(["sgd", "adagrad", "none"]),
    })


def oracle_real(case: dict) -> Outcome:
    """Wrap a real nn.Sequential in torch FSDP(use_orig_params=True) on the simulator, take the local flat shards and
    compile_fsdp_parameter_metadata(model) from it, check the metadata against the shard contents, and run FSDP Shampoo against the
    serial optimizer on the reference decomposition of exactly those shards."""
    import torch
    from torch.distributed.fsdp import FullyShardedDataParallel as FSDP

    from distributed_shampoo.shampoo_types import FSDPShampooConfig
    from distributed_shampoo.utils.shampoo_fsdp_utils import compile_fsdp_parameter_metadata

    from .. import sim
    from . import c06, c15

    out = Outcome()
    S = case["S"]
    dims = []
    fin = case["layers"][0][0]
    for (a, b, bias) in case["layers"]:
        dims.append((fin, b, bias))
        fin = b
    cfg = dict(c06._BASE_CFG, mpd=case["mpd"], graft=(None if case["graft"] == "none" else ({"type": "sgd"} if case["graft"] == "sgd" else {"type": "adagrad", "eps": 1e-8})), start=2)

    def build_model() -> torch.nn.Module:
        g = torch.Generator().manual_seed(case["cfg_seed"])
        m = torch.nn.Sequential(*[torch.nn.Linear(i, o, bias=b) for (i, o, b) in dims])
        with torch.no_grad():
            for p in m.parameters():
                p.copy_(torch.randn(p.shape, generator=g))
        return m

    full = {n: p.detach().clone() for n, p in build_model().named_parameters()}
    names = list(full)

    def grads_for(t: int) -> dict:
        g = torch.Generator().manual_seed(case["cfg_seed"] * 7 + t)
        return {n: torch.randn(full[n].shape, generator=g) for n in names}

    def fn(rank: int, world: Any) -> dict:
        m = FSDP(build_model(), use_orig_params=True, device_id=torch.device("cpu"))
        md = compile_fsdp_parameter_metadata(m)
        params = [p for p in m.parameters()]
        meta = []
        for p in params:
            v = md[p]
            meta.append((v.fqn, tuple(v.shape), v.numel, v.start_idx, v.end_idx, p.numel(), p.detach().clone()))
        live = [p for p in params]
        if not any(p.numel() for p in params):
            for t in range(case["steps"]):
                world.barrier(("A", t))
            return {"meta": meta, "snaps": [], "skip": True}
        opt = gen.build_optimizer(live, cfg, distributed_config=FSDPShampooConfig(param_to_metadata=md))
        snaps = []
        for t in range(case["steps"]):
            gr = grads_for(t)
            for p in params:
                v = md[p]
                key = v.fqn.replace("_fsdp_wrapped_module.", "")
                p.grad = gr[key].reshape(-1)[v.start_idx:v.end_idx].clone() if p.numel() else None
            opt.step()
            world.barrier(("A", t))
            snaps.append([p.detach().clone() for p in params])
        return {"meta": meta, "snaps": snaps, "skip": False}

    results, errors, alive, world = sim.run_world(S, fn)
    real = {r: e for r, e in errors.items() if e != "abort"}
    if not real and (world.deadlock is not None or any(r is None for r in results)):
        raise RuntimeError(f"real-FSDP world did not complete (harness problem): deadlock={world.deadlock} errors={errors}")
    if real:
        r0 = sorted(real)[0]
        if "Some workers have no parameters" in real[r0] or "AssertionError" in real[r0].split("\n")[0]:
            out.classes.append("some_rank_without_block")
            return out
        out.fail("C07.real.rank_raises", "a simulated rank raised " + real[r0].split("\n")[0], real[r0][-1500:])
        return out
    midrow = False
    for r, res in enumerate(results):
        if res is None:
            continue
        for (fqn, shape, numel, a, b, pn, pdata) in res["meta"]:
            key = fqn.replace("_fsdp_wrapped_module.", "")
            if key not in full:
                out.fail("C07.real.metadata", "metadata names an unknown parameter", fqn)
                return out
            if tuple(full[key].shape) != shape or full[key].numel() != numel:
                out.fail("C07.real.metadata", "metadata shape / numel differ from the original parameter", f"{fqn}: {shape} {numel}")
            if b - a != pn:
                out.fail("C07.real.metadata", "end_idx - start_idx differs from the local shard's numel", f"rank {r} {fqn}: [{a},{b}) vs {pn}")
                continue
            if pn and not torch.equal(pdata, full[key].reshape(-1)[a:b]):
                out.fail("C07.real.metadata", "the local shard is not original.flatten()[start:end]", f"rank {r} {fqn}: [{a},{b})")
            row = math.prod(shape[1:]) if len(shape) > 1 else 1
            if pn and len(shape) > 1 and (a % row or b % row):
                midrow = True
    # every element of every parameter is in exactly one rank's shard
    for key in names:
        cov = torch.zeros(full[key].numel(), dtype=torch.int64)
        for res in results:
            for (fqn, shape, numel, a, b, pn, pdata) in (res or {"meta": []})["meta"]:
                if fqn.replace("_fsdp_wrapped_module.", "") == key and pn:
                    cov[a:b] += 1
        if not bool((cov == 1).all()):
            out.fail("C07.real.coverage", "shards do not cover every element of the original parameter exactly once", key)
    if out.failures:
        return out
    # serial oracle per rank on the reference decomposition of exactly these shards
    for r, res in enumerate(results):
        if res is None or res["skip"]:
            continue
        units = []
        for pi, (fqn, shape, numel, a, b, pn, pdata) in enumerate(res["meta"]):
            key = fqn.replace("_fsdp_wrapped_module.", "")
            for (x, y, shp) in c15.reference_cuts(tuple(shape), a, b):
                units.append((pi, key, x, y, shp))
        sp = [torch.nn.Parameter(full[key].reshape(-1)[x:y].clone().reshape(shp)) for (pi, key, x, y, shp) in units]
        if not sp:
            continue
        opt = gen.build_optimizer(sp, cfg)
        for t in range(case["steps"]):
            gr = grads_for(t)
            for p, (pi, key, x, y, shp) in zip(sp, units):
                p.grad = gr[key].reshape(-1)[x:y].clone().reshape(shp)
            opt.step()
            for pi, (fqn, shape, numel, a, b, pn, pdata) in enumerate(res["meta"]):
                parts = [p.detach().reshape(-1) for p, u in zip(sp, units) if u[0] == pi]
                want = torch.cat(parts) if parts else torch.empty(0)
                got = res["snaps"][t][pi]
                if want.shape != got.shape or not rm.bitwise_equal(want, got):
                    out.fail("C07.real.equals_serial", "real-FSDP shard differs from the single-process optimizer on the recovered sub-tensors", f"rank {r} step {t + 1} {fqn}")
                    return out
    out.nontrivial = midrow
    out.classes += [f"S{S}", "mid_row_boundary" if midrow else "aligned_boundaries"]
    return out


PROBES = {
    "F5": ("worlds", {"flavour": "hsdp", "R": 2, "S": 1, "G": -1, "comm_params": False, "comm_dtype": "default",
                      "cfg": {"lr": 0.0078125, "beta1": 0.9, "beta2": 1.0, "beta3": -1.0, "epsilon": 1e-6, "momentum": 0.0, "dampening": 0.0, "nesterov": False, "wd": 0.0,
                              "decoupled": True, "bias": True, "graft": {"type": "sgd"}, "mpd": 4, "merge": True, "freq": 1, "start": 2, "override": 0,
                              "precond": {"kind": "shampoo", "solver": "eigen", "mult": 1.0, "ignored": [], "tol": 3}, "pdtype": "f32", "fdtype": "f32", "gscale": 1.0},
                      "shapes": [[4, 4], [4, 4]], "pseed": 1,
                      "steps": [{"gseed": 3, "gkind": "gauss", "gscale": 1.0, "mask": [True, True]}, {"gseed": 3, "gkind": "gauss", "gscale": 1.0, "mask": [True, False]}],
                      "repair": False, "probe": "F5"}),
}

STREAMS = {
    "worlds": Stream("worlds", oracle=oracle, strategy=strategy, quick=480, thorough=0, shards_quick=16, shards_thorough=16),
    "worlds_large": Stream("worlds_large", oracle=oracle, strategy=strategy_thorough, quick=0, thorough=2500, shards_quick=16, shards_thorough=16),
    "real_fsdp": Stream("real_fsdp", oracle=oracle_real, strategy=strategy_real, quick=48, thorough=500, shards_quick=8, shards_thorough=16),
}
