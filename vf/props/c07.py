"""C07 - FSDP/HSDP Shampoo equals serial Shampoo on the shard's recovered tensor blocks.

Simulated ranks over flattened parameter shards built by the harness's model of flat-parameter sharding (parameters concatenated, equal chunks per
shard rank: mid-row boundaries and empty shards arise naturally) together with FSDPParameterMetadata.  Oracle: each rank's flat shards after every step are
bitwise those of the single-process optimizer over the sub-tensors of the *reference* decomposition (vf/props/c15.reference_cuts, certified minimal by C15)
taken as independent parameters; HSDP additionally: replica agreement, collective traces, no rank left waiting, reduced-precision rounding shim.
"""
from __future__ import annotations

import math
from typing import Any

from .. import dist_common as dc, gen, refmodel as rm
from ..core import Outcome, Stream

LEVEL = "exploration"
RULE = (
    "case = (flavour fsdp | hsdp, shard count S 1..4 quick / 1..8 thorough, replicate size R with R*S <= 8, num_trainers_per_group dividing R, communication "
    "options, optimizer configuration, 2-5 original shapes of order 1-4, history of 3-6 steps with presence masks). Non-trivial = some shard boundary is not a multiple "
    "of the trailing-dims product of its parameter (the shard starts or ends mid-row). Every element of every parameter belongs to exactly one shard rank's "
    "serial oracle, so 'updated exactly once' is implied by bitwise equality on all shard ranks. Distinct = canonical JSON."
)
BOUNDS = "R*S <= 4 (quick) / 8 (thorough); numel <= 120 per parameter; <= 6 steps"
ASSUMPTIONS = ["flat-parameter sharding model: concatenation in parameter order, ceil(total/S) elements per rank (FSDP's padding lies after the last parameter)",
               "reference decomposition of C15", "simulator assumptions of C06"]
NONTRIVIAL_FLOOR = 10


def _strategy(maxW: int):
    from hypothesis import strategies as st

    @st.composite
    def case(draw: Any) -> dict:
        fl = draw(st.sampled_from(["fsdp", "hsdp", "hsdp"]))
        if fl == "fsdp":
            S, R, G = draw(st.sampled_from([s for s in (1, 2, 3, 4, 5, 8) if s <= maxW])), 1, -1
        else:
            S = draw(st.sampled_from([s for s in (1, 2, 2, 3, 4) if 2 * s <= maxW or s == 1]))
            R = draw(st.sampled_from([r for r in (2, 2, 3, 4, 1) if r * S <= maxW]))
            divs = [d for d in range(R, 0, -1) if R % d == 0]
            G = draw(st.sampled_from([-1] + divs))
        cfg = draw(gen.st_config(dtypes=(("f32", "f32"), ("f32", "f32"), ("f64", "f64"), ("bf16", "f32"), ("f64", "f32")), solvers=("eigen", "eigen", "eigen_stab"),
                                 kinds=("shampoo", "shampoo", "soap"), max_mpd=5))
        npar = draw(st.integers(2, 5))
        shapes = [draw(gen.st_shape(cfg["mpd"], max_order=4, max_numel=120, min_order=1)) for _ in range(npar)]
        T = draw(st.integers(3, 6))
        steps = draw(st.lists(gen.st_step(npar, cfg["gscale"], edits=False), min_size=T, max_size=T))
        return {"flavour": fl, "R": R, "S": S, "G": G, "comm_params": draw(st.booleans()), "comm_dtype": draw(st.sampled_from(["default", "fp32", "fp16", "bf16"])),
                "cfg": cfg, "shapes": shapes, "pseed": draw(st.integers(0, 10**5)), "steps": steps, "repair": True}

    return case()


def strategy():
    return _strategy(4)


def strategy_thorough():
    return _strategy(8)


def oracle(case: dict) -> Outcome:
    out, info = dc.run_case(case, "C07")
    pb = info.get("pb")
    if pb is None:
        return out
    out.classes += dc.world_classes(pb, info["traces"])
    midrow = False
    empty = False
    for s in range(pb.S):
        for i, (a, b) in enumerate(pb.ranges[s]):
            row = math.prod(pb.shapes[i][1:]) if len(pb.shapes[i]) > 1 else 1
            if b > a and len(pb.shapes[i]) > 1 and (a % row or b % row):
                midrow = True
            if b == a:
                empty = True
    out.nontrivial = midrow and "rejected_some_rank_without_block" not in out.classes
    if empty:
        out.classes.append("empty_local_shard")
    if midrow:
        out.classes.append("mid_row_boundary")
    # (c) parameters with an empty local shard own no blocks and no state
    for r, res in enumerate(info.get("results") or []):
        if res is None:
            continue
        s = res["s"]
        for i, (a, b) in enumerate(pb.ranges[s]):
            if b == a and res["state_blocks"].get(i):
                out.fail("C07.c.empty_shard_ignored", "a parameter with an empty local shard has optimizer state blocks", f"rank {r} param {i}: {res['state_blocks'][i]}")
    _ = rm
    return out


PROBES = {
    "F5": ("worlds", {"flavour": "hsdp", "R": 2, "S": 1, "G": -1, "comm_params": False, "comm_dtype": "default",
                      "cfg": {"lr": 0.0078125, "beta1": 0.9, "beta2": 1.0, "beta3": -1.0, "epsilon": 1e-6, "momentum": 0.0, "dampening": 0.0, "nesterov": False, "wd": 0.0,
                              "decoupled": True, "bias": True, "graft": {"type": "sgd"}, "mpd": 4, "merge": True, "freq": 1, "start": 2, "override": 0,
                              "precond": {"kind": "shampoo", "solver": "eigen", "mult": 1.0, "ignored": [], "tol": 3}, "pdtype": "f32", "fdtype": "f32", "gscale": 1.0},
                      "shapes": [[4, 4], [4, 4]], "pseed": 1,
                      "steps": [{"gseed": 3, "gkind": "gauss", "gscale": 1.0, "mask": [True, True]}, {"gseed": 3, "gkind": "gauss", "gscale": 1.0, "mask": [True, False]}],
                      "repair": False, "probe": "F5"}),
}

STREAMS = {
    "worlds": Stream("worlds", oracle=oracle, strategy=strategy, quick=480, thorough=0, shards_quick=16, shards_thorough=16),
    "worlds_large": Stream("worlds_large", oracle=oracle, strategy=strategy_thorough, quick=0, thorough=5000, shards_quick=16, shards_thorough=16),
}
