"""C08 - fully_shard / hybrid-shard Shampoo equals serial Shampoo on local shards.

Simulated ranks over dim-0 sharded DTensor parameters (DTensor.from_local with explicit global shape/stride; ceil-chunking as torch.chunk / Shard(0) /
fully_shard use, so uneven and empty local shards occur).  Oracle: param.to_local() on every rank after every step is bitwise the single-process optimizer's
result on that rank's non-empty local tensors taken as ordinary parameters; parameters with an empty local shard are skipped (no state); absent DTensor
gradients are absent.  HybridShard additionally: replica agreement, collective traces, no rank left waiting, rounding shim for reduced precision.
"""
from __future__ import annotations

from typing import Any

from .. import dist_common as dc, gen
from ..core import Outcome, Stream

LEVEL = "exploration"
RULE = (
    "case = (flavour fully_shard (1-D mesh) | hybrid_shard (2-D mesh), shard count S 1..4 quick / 1..8 thorough, replicate size R with R*S <= 8, "
    "num_trainers_per_group dividing R, communication options, optimizer configuration, 2-5 shapes of order 1-3 whose dim 0 is drawn from 1..9 so that "
    "ceil-chunking gives uneven and empty local shards, history of 3-6 steps with presence masks). Non-trivial = some rank has an empty local shard of "
    "some parameter, or the shards of some parameter have unequal row counts. Distinct = canonical JSON."
)
BOUNDS = "R*S <= 4 (quick) / 8 (thorough); numel <= 150 per parameter, up to 20 parameters per group; <= 6 steps"
ASSUMPTIONS = ["DTensor.from_local(chunk, mesh, [Shard(0)]) with explicit shape/stride reproduces what fully_shard / distribute_tensor hand to the optimizer (cross-checked against distribute_tensor in the thorough tier)",
               "simulator assumptions of C06"]
NONTRIVIAL_FLOOR = 10


def _sorted_columns(perm: list, R: int, S: int) -> list:
    """Historical name: until the repair of F11 (5a3df1a) generated meshes had to keep every replicate column ascending; now any permutation of the
    global ranks is a legal device mesh for the generator."""
    return list(perm)


def _strategy(maxW: int):
    from hypothesis import strategies as st

    @st.composite
    def case(draw: Any) -> dict:
        fl = draw(st.sampled_from(["fully_shard", "hybrid_shard", "hybrid_shard"]))
        if fl == "fully_shard":
            S, R, G = draw(st.sampled_from([s for s in (1, 2, 3, 4, 5, 8) if s <= maxW])), 1, -1
        else:
            S = draw(st.sampled_from([s for s in (1, 2, 2, 3, 4) if 2 * s <= maxW or s == 1]))
            R = draw(st.sampled_from([r for r in (2, 2, 3, 4, 1) if r * S <= maxW]))
            divs = [d for d in range(R, 0, -1) if R % d == 0]
            G = draw(st.sampled_from([-1] + divs))
        cfg = draw(gen.st_config(dtypes=(("f32", "f32"), ("f32", "f32"), ("f64", "f64"), ("bf16", "f32"), ("f64", "f32")), solvers=("eigen", "eigen", "eigen_stab"),
                                 kinds=("shampoo", "shampoo", "soap"), max_mpd=5))
        npar = draw(st.integers(2, 5))
        shapes = []
        for _ in range(npar):
            rest = draw(gen.st_shape(cfg["mpd"], max_order=2, max_numel=16, min_order=0))
            shapes.append([draw(st.integers(1, 9))] + rest)
        T = draw(st.integers(3, 6))
        steps = draw(st.lists(gen.st_step(npar, cfg["gscale"], edits=False), min_size=T, max_size=T))
        if fl == "hybrid_shard" and draw(st.integers(0, 4)) == 0:
            # class "many blocks": > 64 blocks per shard with a leading parameter that always has a gradient (selector bookkeeping at scale)
            cfg["mpd"] = draw(st.sampled_from([1, 2]))
            cfg["merge"] = False
            shapes = [draw(st.sampled_from([[70 * S], [36 * S, 2], [9 * S, 8]]))] + [draw(st.sampled_from([[2 * S], [2 * S, 2], [3 * S]])) for _ in range(draw(st.integers(2, 4)))]
            npar = len(shapes)
            steps = []
            for _ in range(T):
                st_ = draw(gen.st_step(npar, cfg["gscale"], edits=False, allow_absent=False))
                st_["mask"] = [True] + [draw(st.booleans()) for _ in range(npar - 1)]
                steps.append(st_)
        if draw(st.sampled_from([False, False, False, True])):
            # class "many parameters, few rows": 9-14 parameters whose leading dimension is smaller than the shard count, so that most ranks hold
            # no rows of most parameters (the lists of non-empty local shards differ from rank to rank and have gaps)
            npar = draw(st.integers(9, 20))
            tail = draw(st.sampled_from([[4], [3], [2, 2], []]))
            shapes = [[draw(st.sampled_from([1, 1, 1, 2, S, S + 1]))] + list(tail) for _ in range(npar)]
            cfg["mpd"] = max(cfg["mpd"], 4)
            steps = [draw(gen.st_step(npar, cfg["gscale"], edits=False)) for _ in range(T)]
        dc.st_param_edits(draw, steps, len(shapes))
        return dc.st_exponent_range_class(draw, {"flavour": fl, "R": R, "S": S, "G": G, "comm_params": draw(st.booleans()), "comm_dtype": draw(st.sampled_from(["default", "fp32", "fp16", "bf16"])),
                "cfg": cfg, "shapes": shapes, "pseed": draw(st.integers(0, 10**5)), "steps": steps, "repair": True,
                "pdtypes": (draw(st.one_of(st.lists(st.sampled_from(["bf16", "f32", "f32", "f16"]), min_size=len(shapes), max_size=len(shapes)), st.just(["f16"] * len(shapes))))
                            if (draw(st.sampled_from([False] * 4 + [True])) and cfg["pdtype"] in ("f32", "bf16")) else None),
                "mesh_perm": (_sorted_columns(draw(st.permutations(list(range(R * S)))), R, S) if (R * S > 1 and fl in ("hsdp", "hybrid_shard") and draw(st.integers(0, 3)) == 0) else None),
                "llayout": ([draw(st.booleans()) for _ in shapes] if draw(st.sampled_from([False, False, True])) else None)})

    return case()


def strategy():
    return _strategy(4)


def strategy_thorough():
    return _strategy(8)


def oracle(case: dict) -> Outcome:
    out, info = dc.run_case(case, "C08")
    pb = info.get("pb")
    if pb is None:
        return out
    out.classes += dc.world_classes(pb, info["traces"])
    empty = uneven = False
    for i in range(len(pb.shapes)):
        rows = [pb.rows(i, s) for s in range(pb.S)]
        cnt = [b - a for a, b in rows]
        if any(c == 0 for c in cnt):
            empty = True
        if len(set(cnt)) > 1:
            uneven = True
    out.nontrivial = (empty or uneven) and "rejected_some_rank_without_block" not in out.classes
    if empty:
        out.classes.append("empty_local_shard")
    if uneven:
        out.classes.append("uneven_rows")
    for r, res in enumerate(info.get("results") or []):
        if res is None:
            continue
        s = res["s"]
        for i in range(len(pb.shapes)):
            a, b = pb.rows(i, s)
            if b == a and res["state_blocks"].get(i):
                out.fail("C08.empty_shard_skipped", "a parameter with an empty local shard has optimizer state blocks", f"rank {r} param {i}: {res['state_blocks'][i]}")
    return out


# --------------------------------------------------------------------------- the harness's chunk rule vs torch's own dim-0 sharding
def strategy_chunks():
    from hypothesis import strategies as st

    return st.fixed_dictionaries({"S": st.integers(1, 4), "R": st.sampled_from([1, 1, 2]), "shapes": st.lists(st.lists(st.integers(1, 9), min_size=1, max_size=3), min_size=1, max_size=4),
                                  "seed": st.integers(0, 1000)})


def oracle_chunks(case: dict) -> Outcome:
    """distribute_tensor(full, mesh, [Shard(0)]) / [Replicate(), Shard(0)] must hand every rank exactly the rows the harness model gives it."""
    import torch
    from torch.distributed.device_mesh import init_device_mesh
    from torch.distributed.tensor import Replicate, Shard, distribute_tensor

    from .. import sim

    out = Outcome()
    S, R = case["S"], case["R"]
    if R * S > 4:
        R = 1
    shapes = case["shapes"]
    pb = dc.Problem({"flavour": "hybrid_shard" if R > 1 else "fully_shard", "R": R, "S": S, "G": -1, "cfg": dict(c06_base(), pdtype="f32"), "shapes": shapes, "pseed": case["seed"], "steps": []})

    def fn(rank: int, world: Any) -> list:
        mesh = init_device_mesh("cpu", (R, S), mesh_dim_names=("replicate", "shard")) if R > 1 else init_device_mesh("cpu", (S,))
        pl = [Replicate(), Shard(0)] if R > 1 else [Shard(0)]
        s = mesh.get_local_rank(1) if R > 1 else mesh.get_local_rank(0)
        res = []
        for i, full in enumerate(pb.full):
            # distribute_tensor scatters from rank 0 (a collective on the threaded backend)
            loc = distribute_tensor(full.clone(), mesh, pl).to_local()
            mine = pb.local_of(full, i, s)
            res.append((tuple(loc.shape), tuple(mine.shape), bool(loc.shape == mine.shape and torch.equal(loc, mine))))
        return res

    results, errors, alive, world = sim.run_world(R * S, fn)
    real = {r: e for r, e in errors.items() if e != "abort"}
    if real:
        raise RuntimeError(f"chunk-rule world failed: {list(real.values())[0][-600:]}")
    for r, res in enumerate(results):
        for i, (a, b, ok) in enumerate(res or []):
            if not ok:
                # this is a defect of the harness model, not of the code under test: report as harness error
                raise AssertionError(f"harness chunk rule differs from distribute_tensor: rank {r} param {i} torch {a} harness {b}")
    out.nontrivial = S >= 2 and any(sh[0] % S or sh[0] < S for sh in shapes)
    out.classes.append(f"S{S}R{R}")
    return out


def c06_base() -> dict:
    from . import c06

    return dict(c06._BASE_CFG)


PROBES = {
    "F5": ("worlds", {"flavour": "hybrid_shard", "R": 2, "S": 1, "G": -1, "comm_params": False, "comm_dtype": "default", "cfg": c06_base(),
                      "shapes": [[4, 4], [4, 4]], "pseed": 1,
                      "steps": [{"gseed": 3, "gkind": "gauss", "gscale": 1.0, "mask": [True, True]}, {"gseed": 3, "gkind": "gauss", "gscale": 1.0, "mask": [True, False]}],
                      "repair": False, "probe": "F5"}),
}

STREAMS = {
    "worlds": Stream("worlds", oracle=oracle, strategy=strategy, quick=480, thorough=0, shards_quick=16, shards_thorough=16),
    "worlds_large": Stream("worlds_large", oracle=oracle, strategy=strategy_thorough, quick=0, thorough=2500, shards_quick=16, shards_thorough=16),
    "chunk_rule": Stream("chunk_rule", oracle=oracle_chunks, strategy=strategy_chunks, quick=48, thorough=500, shards_quick=8, shards_thorough=16),
}
