"""C10 - matrix inverse root is accurate for every solver, root and dtype.

Oracle: spectral reference  V (lambda - min(lambda_min, 0) + eps)^(-1/r) V^T  of the *actual input* - float64 eigh for float32 runs,
50-digit mpmath.eigsy for float64 runs with n <= 16 (float64 eigh with a doubled bound above that).  Accuracy bound (DESIGN 4.3):
   ||X - Xref||_2 / ||Xref||_2 <= C*n*u*cond(A + eps I)*max(1,1/r) + n*tol_solver + (2/r)*u32*max|ln(lambda + eps)| + 4u,    C = 16.
Iterative solvers are called through their own entry points to read the convergence flag: CONVERGED => reported error <= tolerance and an
independent float64 residual ||(A + eps I) X^p - I||_max <= tolerance + K n u kappa; the higher-order solver either raises ArithmeticError
or returns a result whose reported and independent residual are <= 0.1 (+ rounding).  hypothesis.target() steers towards error/bound.
"""
from __future__ import annotations

import math
from fractions import Fraction
from typing import Any

import torch

from .. import matgen
from ..core import Outcome, Stream, call_sut

LEVEL = "exploration"
RULE = (
    "case = (n in 1..32 quick / 1..128 thorough, spectrum recipe {logspace, log-uniform, clustered, repeated, identity} with target condition number "
    "10^[0,8], scale 1e-6..1e6, 0-5 exact zero eigenvalues, basis {random orthogonal, identity (diagonal input), block, permutation, sign-like}, epsilon = "
    "10^[-12,0] * scale, root p/q with p,q <= 10 or an exponent-multiplier value, float32/float64, solver {Eigen, Eigen(enhance_stability), CoupledNewton, "
    "CoupledHigherOrder(order 2-4)}). Non-trivial = n >= 2, non-diagonal input and accuracy bound < 0.1 (informative). Distinct = canonical JSON."
)
BOUNDS = "n <= 32 (quick) / 128 (thorough); roots p/q with p, q <= 30; scales 1e-6..1e6 (the property's range); mpmath reference for float64 with n <= 16"
TOLERANCES = "relative 2-norm error <= 16*n*u*kappa*max(1,1/r) + 2*n*tol_solver + (2/r)*2^-24*max|ln(lambda+eps)| + 4u; uninformative (not asserted) when >= 0.1"
ASSUMPTIONS = ["float64 torch.linalg.eigh / mpmath.eigsy give the spectral decomposition of the input to their working precision"]
NONTRIVIAL_FLOOR = 100
C = 16.0
U32 = 2.0**-24
D = torch.float64


def _cfg(solver: dict):
    from matrix_functions_types import CoupledHigherOrderConfig, CoupledNewtonConfig, EigenConfig

    k = solver["kind"]
    if k == "eigen":
        return EigenConfig()
    if k == "eigen_stab":
        return EigenConfig(enhance_stability=True)
    if k == "newton":
        return CoupledNewtonConfig(max_iterations=solver["max_it"], tolerance=solver["tol"])
    return CoupledHigherOrderConfig(rel_epsilon=solver.get("rel_eps", 0.0), max_iterations=solver["max_it"], tolerance=solver["tol"], order=solver["order"])


def reference(A: torch.Tensor, root: float, eps: float, use_mp: bool) -> tuple[torch.Tensor, float, torch.Tensor]:
    A64 = A.to(D)
    L, Q = torch.linalg.eigh(A64)
    Ls = L - min(float(L.min()), 0.0) + eps
    kappa = float(Ls.max() / Ls.min())
    if use_mp:
        X = matgen.mp_inverse_root(A64, root, eps)
    else:
        X = (Q * Ls.pow(-1.0 / root)) @ Q.T
    return X, kappa, Ls


def rel_err(X: torch.Tensor, Xr: torch.Tensor) -> float:
    X = X.to(D)
    if X.shape != Xr.shape:
        return float("inf")
    if not bool(torch.isfinite(X).all()):
        return float("inf")
    if Xr.shape[0] == 1:
        return float((X - Xr).abs().max() / Xr.abs().max())
    return float(torch.linalg.matrix_norm(X - Xr, 2) / torch.linalg.matrix_norm(Xr, 2))


def oracle(case: dict) -> Outcome:
    import matrix_functions as mf

    out = Outcome()
    n, dt = case["n"], {"f32": torch.float32, "f64": torch.float64}[case["dtype"]]
    u = float(torch.finfo(dt).eps) / 2
    A, lam, V = matgen.make_matrix(n, case["recipe"], dt)
    if case.get("layout") == "col" and n > 1:
        A = A.t().contiguous().t()  # same symmetric matrix, column-major memory layout (what .T / linalg.inv / cholesky_inverse hand back)
    scale = float(A.to(D).abs().max())
    if scale == 0.0:
        scale = case["recipe"].get("scale", 1.0)
    eps = max(case["eps_rel"], 0.0) * scale
    if eps <= 0 or not math.isfinite(eps):
        eps = 1e-12
    rootf = matgen.root_fraction(case["root"])
    root = float(rootf)
    solver = case["solver"]
    eff_eps = eps
    if solver["kind"] == "higher" and solver.get("rel_eps", 0.0) > 0 and n > 1:
        eff_eps = max(solver["rel_eps"] * float(torch.linalg.matrix_norm(A.to(D), float("inf"))), eps)
    use_mp = dt == torch.float64 and n <= 16
    Xr, kappa, Ls = reference(A, root, eff_eps, use_mp)
    peak = float(Ls.min()) ** (-1.0 / root) if float(Ls.min()) > 0 else float("inf")
    low = float(Ls.max()) ** (-1.0 / root)
    # a smallest eigenvalue that the working dtype cannot resolve (<= 16 n u ||A||) may come out of the eigensolver as zero or slightly negative; the
    # documented shift then leaves epsilon itself as the smallest shifted eigenvalue: the worst-case peak is eps^(-1/r)
    if float(Ls.min()) - eff_eps <= 16 * n * u * float(Ls.max()):
        try:
            peak = max(peak, eff_eps ** (-1.0 / root))
        except OverflowError:
            peak = float("inf")
    if not math.isfinite(peak) or peak > 1e-3 * float(torch.finfo(dt).max) or eff_eps < float(torch.finfo(dt).tiny) * 1e3 or low < float(torch.finfo(dt).tiny) * 1e3:
        out.classes.append("overflow_domain")  # the exact result is not representable in the working dtype
        return out
    lnmax = max(abs(math.log(float(Ls.min()))), abs(math.log(float(Ls.max()))))
    # x -> x^(-1/r) has relative condition number 1/r: exponents of magnitude > 1 amplify the spectral error accordingly
    amp = max(1.0, 1.0 / root)
    base_bound = C * n * u * kappa * amp + (2.0 / root) * U32 * lnmax + 4 * u * (1 + amp)
    if dt == torch.float64 and not use_mp:
        base_bound *= 2
    diag_input = bool((A == torch.diag(torch.diagonal(A))).all())
    informative = base_bound < 0.1
    out.nontrivial = n >= 2 and not diag_input and informative
    cl = out.classes
    cl += [solver["kind"], case["dtype"], f"kappa_1e{min(16, int(math.log10(max(kappa, 1.0))))}"]
    if case["recipe"].get("nzero") or case["recipe"]["kind"] == "zero":
        cl.append("rank_deficient")
    if not informative:
        cl.append("uninformative")
    if case["recipe"].get("struct"):
        cl.append("structured_" + case["recipe"]["struct"])
    k = solver["kind"]
    if k in ("eigen", "eigen_stab"):
        A0 = A.clone()
        ok, X = call_sut(out, "C10.call", f"matrix_inverse_root[{k}]", lambda: mf.matrix_inverse_root(A, rootf, _cfg(solver), epsilon=eps))
        if not ok:
            return out
        # purity: the input is untouched and separate calls do not alias (overwrite the first result, call again, same value)
        if not torch.equal(A, A0):
            out.fail("C10.purity.inputs", "matrix_inverse_root modified its input in place")
        if n >= 1 and X.data_ptr() != A.data_ptr():
            keep = X.clone()
            X.fill_(float("nan"))
            if not torch.equal(A, A0):
                out.fail("C10.purity.aliasing", "the returned root shares memory with the input")
            ok2, X2 = call_sut(out, "C10.call", f"matrix_inverse_root[{k}] (second call)", lambda: mf.matrix_inverse_root(A, rootf, _cfg(solver), epsilon=eps))
            if ok2 and not (X2.shape == keep.shape and torch.equal(X2, keep)):
                out.fail("C10.purity.aliasing", "a second call returns a different root after the first result was overwritten (results alias a shared object)")
            X = keep
        if X.dtype != dt and n > 1:
            out.classes.append(f"returned_{X.dtype}")
        e = rel_err(X, Xr)
        if informative:
            out.metric(f"err_over_bound/{k}", e / base_bound)
            out.metric("target", e / base_bound)
            if e > base_bound:
                out.fail(f"C10.accuracy.{k}", "inverse root less accurate than n*u*cond bound", f"n={n} kappa={kappa:.2e} root={root:.4g} dtype={case['dtype']} err={e:.3e} bound={base_bound:.3e}", e, base_bound)
        elif not math.isfinite(e):
            out.fail(f"C10.finite.{k}", "inverse root is not finite", f"n={n} kappa={kappa:.2e} eps={eps:.3e}")
        # diagonal fast path == general path (only for diagonal A)
        if diag_input and n > 1:
            ok, Xd = call_sut(out, "C10.call", "matrix_inverse_root[is_diagonal]", lambda: mf.matrix_inverse_root(A, rootf, _cfg(solver), epsilon=eps, is_diagonal=True))
            if ok:
                ed = rel_err(Xd, Xr)
                cl.append("diagonal_fast_path")
                if informative and ed > base_bound:
                    out.fail("C10.fastpath.diagonal", "diagonal fast path deviates from the general path / reference", f"n={n} err={ed:.3e} bound={base_bound:.3e}")
                if float((Xd.to(D) - torch.diag(torch.diagonal(Xd.to(D)))).abs().max()) != 0.0:
                    out.fail("C10.fastpath.diagonal", "diagonal fast path returns a non-diagonal matrix")
        if n == 1:
            cl.append("1x1_fast_path")
        return out
    if k == "newton":
        if rootf.denominator != 1:
            # documented: integer roots only -> ValueError
            try:
                mf.matrix_inverse_root(A, rootf, _cfg(solver), epsilon=eps)
                if n > 1:
                    out.fail("C10.newton.fractional_root", "coupled Newton accepted a non-integer root")
            except ValueError:
                cl.append("newton_rejects_fractional_root")
            except Exception as e:  # noqa: BLE001
                out.fail("C10.newton.fractional_root", f"non-integer root raises {type(e).__name__} instead of ValueError")
            out.nontrivial = False
            return out
        if n == 1:
            return out
        p = rootf.numerator
        ok, res = call_sut(out, "C10.call", "_matrix_inverse_root_newton", lambda: mf._matrix_inverse_root_newton(A, p, eps, solver["max_it"], solver["tol"]))
        if not ok:
            return out
        X, M, flag, it, err = res
        conv = flag == mf.NewtonConvergenceFlag.CONVERGED
        cl.append("newton_converged" if conv else "newton_not_converged")
        # "whichever method is configured": with the default iteration budget the coupled Newton iteration converges for every input whose
        # accuracy bound is informative (calibration on the pinned tree: 6000 generated matrices up to kappa 1e12, at most 42 iterations), so
        # the accuracy claim is asserted regardless of the flag when max_iterations >= 100; with a smaller budget only when it reports convergence
        bound_n = base_bound + 2 * n * solver["tol"] + 16 * n * u * kappa
        if not conv and solver["max_it"] >= 100 and bound_n < 0.1 and solver["tol"] >= 100 * u:
            e = rel_err(X, Xr)
            out.metric("err_over_bound/newton_unconverged", e / bound_n)
            if e > bound_n:
                out.fail("C10.accuracy.newton", "coupled Newton (default iteration budget) did not reach the accuracy bound on a well-conditioned input",
                         f"n={n} kappa={kappa:.2e} p={p} eps={eps:.3e} err={e:.3e} bound={bound_n:.3e} iterations={it}")
        if conv:
            if not float(err) <= solver["tol"]:
                out.fail("C10.newton.flag", "CONVERGED reported with error above tolerance", f"err {float(err):.3e} tol {solver['tol']:.1e}")
            I = torch.eye(n, dtype=D)
            resid = float(((A.to(D) + eps * I) @ torch.linalg.matrix_power(X.to(D), p) - I).abs().max())
            rb = 2 * solver["tol"] + 64 * p * n * u * kappa
            out.metric("newton_residual_over_bound", resid / rb)
            if resid > rb and rb < 0.05:
                out.fail("C10.newton.residual", "converged Newton result has an independent residual above tolerance + rounding", f"resid {resid:.3e} bound {rb:.3e} n={n} kappa={kappa:.2e}")
            bound = base_bound + 2 * n * solver["tol"] + 16 * n * u * kappa
            e = rel_err(X, Xr)
            if bound < 0.1:
                out.metric("err_over_bound/newton", e / bound)
                out.metric("target", e / bound)
                if e > bound:
                    out.fail("C10.accuracy.newton", "converged Newton result less accurate than bound", f"n={n} kappa={kappa:.2e} p={p} err={e:.3e} bound={bound:.3e}")
            # the public entry point returns the same matrix
            ok, Xp = call_sut(out, "C10.call", "matrix_inverse_root[newton]", lambda: mf.matrix_inverse_root(A, rootf, _cfg(solver), epsilon=eps))
            if ok and not torch.equal(Xp, X):
                out.fail("C10.newton.public", "public entry point returns a different matrix than the solver")
        return out
    # higher order
    if n == 1:
        return out
    p, q = rootf.numerator, rootf.denominator
    try:
        X, M, flag, it, err = mf._matrix_inverse_root_higher_order(A, rootf, rel_epsilon=solver.get("rel_eps", 0.0), abs_epsilon=eps,
                                                                   max_iterations=solver["max_it"], tolerance=solver["tol"], order=solver["order"])
    except ArithmeticError:
        cl.append("higher_order_raised")
        return out
    except Exception as e:  # noqa: BLE001
        out.fail("C10.higher.call", f"higher-order solver raised {type(e).__name__}", str(e)[:300])
        return out
    cl.append("higher_order_returned")
    conv = flag == mf.NewtonConvergenceFlag.CONVERGED
    if not float(err) <= 0.1:
        out.fail("C10.higher.guard", "higher-order solver returned a result whose reported residual exceeds its guard 0.1", f"reported {float(err):.3e}")
    if not bool(torch.isfinite(X).all()):
        out.fail("C10.higher.finite", "higher-order solver returned a non-finite result")
        return out
    I = torch.eye(n, dtype=D)
    if q == 1:
        resid = float(torch.linalg.vector_norm((A.to(D) + eff_eps * I) @ torch.linalg.matrix_power(X.to(D), p) - I, float("inf")))
        rb = 0.1 + 64 * n * u * kappa
        out.metric("higher_residual", resid)
        if resid > rb and 64 * n * u * kappa < 0.1:
            out.fail("C10.higher.residual", "returned higher-order result has an independent residual above the guard", f"resid {resid:.3e} bound {rb:.3e} n={n} kappa={kappa:.2e}")
    if conv or solver["max_it"] >= 100:
        # with the default iteration budget a *returned* result (any termination flag) is accurate: calibration on the pinned tree (5000 matrices): err <= 5 n u kappa (float32) resp. ~tolerance (float64)
        if conv:
            cl.append("higher_order_converged")
        bound = base_bound + 2 * n * max(solver["tol"], 1e-7 if dt == torch.float64 else 0.0) + 32 * n * u * kappa * max(1, q)
        e = rel_err(X, Xr)
        if bound < 0.1:
            out.metric("err_over_bound/higher", e / bound)
            out.metric("target", e / bound)
            if e > bound:
                out.fail("C10.accuracy.higher", "converged higher-order result less accurate than bound", f"n={n} kappa={kappa:.2e} root={p}/{q} err={e:.3e} bound={bound:.3e}")
    return out


def strategy():
    return _strategy(32)


def strategy_large():
    return _strategy(128)


def _strategy(nmax: int):
    from hypothesis import strategies as st

    @st.composite
    def case(draw: Any) -> dict:
        n = draw(st.one_of(st.integers(2, min(12, nmax)), st.integers(2, nmax), st.sampled_from([1, 2, 3, 5, 8, 16, 17, nmax]))) if nmax <= 32 else draw(st.one_of(st.integers(33, nmax), st.sampled_from([64, 65, 100, nmax])))
        dtype = draw(st.sampled_from(["f32", "f64"]))
        kind = draw(st.sampled_from(["eigen", "eigen", "eigen_stab", "newton", "higher"]))
        solver: dict = {"kind": kind}
        if kind == "newton":
            # small iteration budgets end runs close to, but above, the tolerance: the flag must then say so
            solver.update(max_it=draw(st.sampled_from([100, 1000, 20, 8, 12, 16, 30])), tol=draw(st.sampled_from([1e-6, 1e-4, 1e-10] if dtype == "f64" else [1e-6, 1e-4, 1e-5])))
        elif kind == "higher":
            solver.update(max_it=draw(st.sampled_from([100, 20])), tol=draw(st.sampled_from([1e-8, 1e-12, 1e-6] if dtype == "f64" else [1e-6, 1e-5, 1e-8])),
                          order=draw(st.integers(2, 4)), rel_eps=draw(st.sampled_from([0.0, 0.0, 1e-6, 1e-3])))
        maxk = 5.0 if dtype == "f32" else 12.0
        recipe = draw(matgen.st_recipe(max_logk=maxk, allow_neg=False))
        if recipe["kind"] == "zero":
            recipe["kind"] = "logspace"
        root = draw(matgen.st_root())
        if kind == "newton" and draw(st.integers(0, 9)) > 0:
            root = [draw(st.integers(1, 10)), 1]
        if kind == "higher":
            root = [draw(st.integers(1, 8)), draw(st.sampled_from([1, 1, 1, 2, 3]))]
        eps_rel = draw(st.one_of(st.floats(-12, 0).map(lambda e: 10.0**e), st.sampled_from([1e-12, 1e-6, 1e-3, 1.0]),
                                 st.floats(-3, 1).map(lambda d_: min(1.0, 10.0 ** (-recipe["logk"] + d_))), st.floats(-3, 1).map(lambda d_: min(1.0, 10.0 ** (-recipe["logk"] + d_)))))
        if kind == "eigen_stab" and draw(st.sampled_from([False, False, False, True])):
            # forced class: the stability option on a rank-deficient matrix with an epsilon far below the dtype's resolution of the scale (the optimizer's
            # default 1e-12): the smallest eigenvalue comes out of the eigensolver as +-round-off and the documented shift must still leave epsilon
            n = draw(st.sampled_from([2, 3, 3, 4, 6]))
            recipe = dict(recipe, kind="logspace", nzero=draw(st.integers(1, n - 1)), logk=draw(st.sampled_from([0.0, 1.0, 2.0])))
            recipe.pop("struct", None)
            # (the optimizer's epsilon is absolute: against factors of norm 1e3-1e6 it is 1e-15..1e-18 relative - below u^2 in float32)
            eps_rel = draw(st.sampled_from([1e-12, 1e-15, 1e-16, 1e-18]))
            root = [draw(st.sampled_from([1, 2, 2, 4])), 1]
        if kind == "higher" and draw(st.sampled_from([False] * 5 + [True])):
            root = [draw(st.integers(10, 17)), draw(st.integers(10, 17))]  # numerator and denominator both large
        if kind == "newton" and draw(st.sampled_from([False] * 7 + [True])):
            # forced class: the scaled starting matrix of the iteration has an exactly unit diagonal (see matgen 'newton_unit_start')
            n = draw(st.sampled_from([2, 2, 3, 4, 4, 6, 9]))
            rmin = int(2 * math.sqrt(n) - 1) + 1
            root = [draw(st.integers(rmin, rmin + 4)), 1]
            eps_rel = draw(st.sampled_from([1e-12, 1e-8, 1e-4]))
            recipe = {"kind": "struct", "struct": "newton_unit_start", "root": root[0], "eps_rel": eps_rel, "logk": 1.0, "seed": draw(st.integers(0, 10**6)),
                      "scale": draw(st.sampled_from([1.0, 1.0, 1e-3, 37.0, 1e4])), "basis": "random", "nzero": 0}
        return {"n": n, "dtype": dtype, "recipe": recipe, "eps_rel": eps_rel, "root": root, "solver": solver, "layout": draw(st.sampled_from(["row", "row", "col"]))}

    return case()


STREAMS = {
    "small": Stream("small", oracle=oracle, strategy=strategy, quick=12000, thorough=120000, shards_quick=16, shards_thorough=16),
    "large": Stream("large", oracle=oracle, strategy=strategy_large, quick=320, thorough=6000, shards_quick=8, shards_thorough=16),
}
