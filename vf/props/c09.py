"""C09 - checkpoint save/restore at any step resumes the exact trajectory.

Round-trip differential with *every* crash point enumerated: run A is uninterrupted; for each stop step k = 0..T the
distributed state dict taken after step k is serialised (torch.save / torch.load), loaded into a freshly constructed
optimizer over clones of the parameters at step k, and the remaining steps are replayed: parameters and all state must be
bit-for-bit those of A after every remaining step.  Negative loads (a tensor-bearing entry dropped, an unknown parameter
name, a different param-group partition) must raise.
"""
from __future__ import annotations

import copy
import io
from typing import Any

import torch

from .. import gen, history, refmodel as rm
from ..core import Outcome, Stream, call_sut

LEVEL = "fault_enumeration"
RULE = (
    "case = optimizer configuration (Shampoo / SOAP, all grafting types, momentum, filtering, 1-3 param groups, blocked parameters, blocks "
    "without any Kronecker factor) x history of T = 2..8 steps with absent gradients and schedule edits; the crash point is enumerated: every "
    "stop step k = 0..T of every history is saved, restored into a fresh optimizer and continued. Non-trivial = a crash point 0 < k < T whose "
    "continuation contains a refresh step. Distinct = canonical JSON of (history, k); evaluations counts histories, sub_evaluations crash points."
)
BOUNDS = "T <= 8 steps, <= 3 groups, <= 3 parameters per group, numel <= 120; roundtrip stream: serial layout, every crash point; long_run: crash points 255-261 / 2047-2053 steps; ddp_layout stream: DTensor state on simulated DDP worlds (W <= 4), one generated crash point per world"
ASSUMPTIONS = ["torch.save/torch.load round-trips tensors bit-exactly", "bitwise comparison through integer views (NaN-safe)"]
NONTRIVIAL_FLOOR = 20


def strategy():
    from hypothesis import strategies as st

    @st.composite
    def case(draw: Any) -> dict:
        cfgd = draw(history.st_history_config(max_groups=3, max_params=3, max_numel=120, solvers=("eigen", "eigen", "eigen_stab", "newton"),
                                              kinds=("shampoo", "shampoo", "soap")))
        n = sum(len(g["shapes"]) for g in cfgd["groups"])
        gs = cfgd["groups"][0]["cfg"]["gscale"]
        T = draw(st.sampled_from([2, 3, 4, 5, 6, 7, 8, 8]))
        steps = draw(st.lists(gen.st_step(n, gs, edits=True), min_size=T, max_size=T))
        return {"config": cfgd, "steps": steps, "neg_k": draw(st.integers(0, len(steps))), "neg_pick": draw(st.integers(0, 10**6)),
                "order": draw(st.sampled_from(["natural", "natural", "sorted", "sorted_desc", "reversed"]))}

    return case()


def _record(r: history.OptRunner) -> dict:
    return {"params": [p.detach().clone() for p in r.all_params()], "state": [rm.clone_walk(r.opt.state[p]) for p in r.all_params()],
            "hp": [dict(h) for h in r.hp], "t": list(r.t)}


def _same(rec: dict, r: history.OptRunner) -> str | None:
    for i, (p, q) in enumerate(zip(rec["params"], r.all_params())):
        if not rm.bitwise_equal(p, q.detach()):
            return f"parameter {i} differs (max abs diff {(p.double() - q.detach().double()).abs().max().item():.3e})"
    for i, (sa, q) in enumerate(zip(rec["state"], r.all_params())):
        sb = rm.clone_walk(r.opt.state[q])
        if set(sa) != set(sb):
            return f"state keys of parameter {i} differ: {sorted(map(str, set(sa) ^ set(sb)))[:4]}"
        for k in sa:
            if not rm.bitwise_equal(sa[k], sb[k]):
                return f"state {k} of parameter {i} differs"
    return None


def _save(r: history.OptRunner, order: str = "natural") -> Any:
    sd = r.opt.distributed_state_dict(key_to_param=iter(r.named_params()))
    buf = io.BytesIO()
    torch.save(sd, buf)
    buf.seek(0)
    sd = torch.load(buf, weights_only=False)
    if order != "natural":
        # a checkpoint store hands the flat entries back in its own order (sorted, reversed): the state dict is the same mapping
        for name in list(sd["state"]):
            keys = sorted(sd["state"][name], reverse=(order == "sorted_desc")) if order.startswith("sorted") else list(sd["state"][name])[::-1]
            sd["state"][name] = {k: sd["state"][name][k] for k in keys}
        sd["state"] = {k: sd["state"][k] for k in sorted(sd["state"], reverse=True)}
    return sd


def oracle(case: dict) -> Outcome:
    out = Outcome()
    config, steps = case["config"], case["steps"]
    T = len(steps)
    A = history.OptRunner(config, check_reference=False)
    if A.failed_construct:
        out.failures.append(A.failed_construct)
        return out
    saved: list[Any] = []
    recs: list[dict] = []
    order = case.get("order", "natural")
    ok, sd0 = call_sut(out, "C09.save", "distributed_state_dict", lambda: _save(A, order))
    if not ok:
        return out
    saved.append(sd0)
    recs.append(_record(A))
    # structural: one flat key per reachable state tensor
    for (name, p) in A.named_params():
        nreach = len(rm.walk(A.opt.state[p]))
        if name not in sd0["state"]:
            if nreach:
                out.fail("C09.keys", "the saved state lacks a parameter whose optimizer state holds tensors", f"{name}: {nreach} state tensors (requires_grad={p.requires_grad})")
                return out
            continue
        nflat = len(sd0["state"][name])
        if nflat != nreach or not all(isinstance(k, str) for k in sd0["state"][name]):
            out.fail("C09.keys", "number of saved entries differs from the number of state tensors of the parameter", f"{name}: saved {nflat}, reachable {nreach}")
    T_eff = T
    refresh_at: list[bool] = []
    for si, s in enumerate(steps):
        e = A.raw_step(s)
        if e is not None:
            # an uninterrupted run that raises (iterative solver giving up, divergence) ends the comparable history here
            T_eff = si
            out.classes.append("uninterrupted_run_raised")
            break
        refresh_at.append(any(rm.is_refresh(A.t[gi], A.hp[gi]["start"], A.hp[gi]["freq"]) and any(s["mask"][sum(len(g["shapes"]) for g in config["groups"][:gi]): sum(len(g["shapes"]) for g in config["groups"][:gi + 1])])
                              for gi in range(len(config["groups"]))))
        ok, sd = call_sut(out, "C09.save", "distributed_state_dict", lambda: _save(A, order))
        if not ok:
            return out
        saved.append(sd)
        recs.append(_record(A))
    nontrivial = False
    for k in range(T_eff + 1):
        out.sub_evaluations += 1
        B = history.OptRunner(config, check_reference=False)
        with torch.no_grad():
            for q, src in zip(B.all_params(), recs[k]["params"]):
                q.copy_(src)
        ok, _ = call_sut(out, "C09.load", f"load_distributed_state_dict at crash point k={k}",
                         lambda: B.opt.load_distributed_state_dict(copy.deepcopy(saved[k]), key_to_param=iter(B.named_params())))
        if not ok:
            return out
        B.hp = [dict(h) for h in recs[k]["hp"]]
        B.t = list(recs[k]["t"])
        d = _same(recs[k], B)
        if d is not None:
            out.fail("C09.restore", "state right after load differs from the saved run", f"k={k}: {d}")
            return out
        for si in range(k, T_eff):
            e = B.raw_step(steps[si])
            if e is not None:
                out.fail("C09.resume", f"resumed run raised {type(e).__name__} where the uninterrupted run did not", f"k={k} step {si + 1}: {e}")
                return out
            d = _same(recs[si + 1], B)
            if d is not None:
                out.fail("C09.resume", "resumed run diverges from the uninterrupted run", f"k={k} step {si + 1}: {d}")
                return out
        if 0 < k < T_eff and any(refresh_at[k:]):
            nontrivial = True
    # ---- negative loads at one crash point
    k = min(case["neg_k"], T_eff)
    pick = case["neg_pick"]
    names = [n for n, _ in A.named_params()]

    def fresh() -> history.OptRunner:
        return history.OptRunner(config, check_reference=False)

    # (a) a tensor-bearing entry is missing
    sd = copy.deepcopy(saved[k])
    nm = names[pick % len(names)]
    keys = sorted(sd["state"][nm])
    if keys:
        victim = keys[(pick // 7) % len(keys)]
        del sd["state"][nm][victim]
        B = fresh()
        _expect_raise(out, "C09.neg.missing_entry", f"entry {victim} of {nm} dropped", KeyError,
                      lambda: B.opt.load_distributed_state_dict(sd, key_to_param=iter(B.named_params())))
    # (a') a whole sub-tree of entries is missing: every flat key that shares a prefix of depth 1-3 with a victim entry (a block's complete
    # Kronecker-factor state, a whole block, one tuple of factors) while the parameter's other entries are still there
    sd = copy.deepcopy(saved[k])
    keys = sorted(sd["state"][nm])
    if keys:
        import json as _json

        def path(kk: Any) -> list:
            try:
                v = _json.loads(kk) if isinstance(kk, str) else [kk]
                return v if isinstance(v, list) else [v]
            except Exception:  # noqa: BLE001
                return [kk]

        victim = keys[(pick // 11) % len(keys)]
        depth = 1 + (pick // 5) % 3
        pref = path(victim)[:depth]
        gone = [kk for kk in keys if path(kk)[: len(pref)] == pref]
        for kk in gone:
            del sd["state"][nm][kk]
        if gone:
            B = fresh()
            out.classes.append("subtree_dropped_partially" if len(gone) < len(keys) else "subtree_dropped_all_entries")
            _expect_raise(out, "C09.neg.missing_subtree", f"{len(gone)} entries under {pref} of {nm} dropped", KeyError,
                          lambda: B.opt.load_distributed_state_dict(sd, key_to_param=iter(B.named_params())))
    # (b) unknown parameter name
    sd = copy.deepcopy(saved[k])
    sd["state"]["no.such.param"] = copy.deepcopy(sd["state"][names[0]])
    B = fresh()
    _expect_raise(out, "C09.neg.unknown_param", "unknown parameter name in the checkpoint", KeyError,
                  lambda: B.opt.load_distributed_state_dict(sd, key_to_param=iter(B.named_params())))
    # (c) param-group partition differs
    if len(names) >= 2:
        sd = copy.deepcopy(saved[k])
        B = fresh()
        cfg2 = copy.deepcopy(config)
        if len(cfg2["groups"]) == 1:
            g = cfg2["groups"][0]
            g2 = {"cfg": copy.deepcopy(g["cfg"]), "shapes": [g["shapes"].pop()], "inherit": []}
            cfg2["groups"].append(g2)
        else:
            cfg2["groups"][0]["shapes"].extend(cfg2["groups"].pop()["shapes"])
            if cfg2["groups"][0]["cfg"]["pdtype"] != config["groups"][-1]["cfg"]["pdtype"]:
                cfg2 = None
        if cfg2 is not None:
            B2 = history.OptRunner(cfg2, check_reference=False)
            if B2.opt is not None:
                flat = B2.all_params()
                named = list(zip(names, flat))
                _expect_raise(out, "C09.neg.group_mismatch", "param-group partition differs from the checkpoint", (ValueError, KeyError),
                              lambda: B2.opt.load_distributed_state_dict(sd, key_to_param=iter(named)))
    out.nontrivial = nontrivial
    cl = out.classes
    cl.append(f"T{T_eff}")
    cl.append(f"entry_order_{order}")
    for r in (A,):
        fin = r.finish()
        cl.extend(c for c in fin.classes if c.startswith(("graft_", "precond_", "multi_group", "ignored_dims", "block_order0", "momentum", "mask_change", "all_absent", "split", "merged", "frozen_", "library_loggers", "mixed_param")))
    if any(len(rm.walk(A.opt.state[p].get(k2, {}).get("shampoo", {}) if isinstance(A.opt.state[p].get(k2), dict) else {})) == 0
           for p in A.all_params() for k2 in A.opt.state[p] if isinstance(k2, str) and k2.startswith("block_")):
        cl.append("block_without_kronecker_factor")
    return out


def _expect_raise(out: Outcome, oracle_name: str, what: str, exc: Any, fn: Any) -> None:
    # the property demands "raises instead of resuming"; the exception type is recorded, not prescribed
    try:
        fn()
    except exc:
        out.classes.append(f"{oracle_name.split('.')[-1]}_raises_documented_type")
        return
    except Exception as e:  # noqa: BLE001
        out.classes.append(f"{oracle_name.split('.')[-1]}_raises_{type(e).__name__}")
        return
    out.fail(oracle_name, "load accepted a checkpoint it must reject", what)


# --------------------------------------------------------------------------- long runs: crash points at large step counts
def strategy_long():
    from hypothesis import strategies as st

    @st.composite
    def case(draw: Any) -> dict:
        pd = draw(st.sampled_from(["bf16", "f16", "f32", "bf16"]))
        base = {"bf16": 256, "f16": 2048, "f32": 256}[pd]
        k = base + draw(st.sampled_from([1, 1, 3, 5, 2, 0, -1]))
        kind = draw(st.sampled_from(["shampoo", "soap"]))
        cfg = {"lr": 0.0009765625, "beta1": draw(st.sampled_from([0.0, 0.9])), "beta2": draw(st.sampled_from([0.99, 1.0])), "beta3": -1.0, "epsilon": 1e-4,
               "momentum": draw(st.sampled_from([0.0, 0.5])), "dampening": 0.0, "nesterov": False, "wd": 0.0, "decoupled": True, "bias": True,
               "graft": draw(st.sampled_from([None, {"type": "adam", "eps": 1e-6, "beta2": 0.99}])), "mpd": 4, "merge": True, "freq": draw(st.sampled_from([1, 3, 7])),
               "start": -1, "override": 0,
               "precond": ({"kind": "shampoo", "solver": "eigen", "mult": 1.0, "ignored": [], "tol": 3} if kind == "shampoo" else {"kind": "soap", "method": "eigh", "ignored": [], "tol": 3}),
               "pdtype": pd, "fdtype": "f32", "gscale": 1.0}
        return {"cfg": cfg, "shapes": draw(st.sampled_from([[[2]], [[2, 2]], [[3], [2]]])), "k": k, "extra": draw(st.integers(2, 6)), "seed": draw(st.integers(0, 10**4))}

    return case()


def oracle_long(case: dict) -> Outcome:
    """Hundreds to thousands of steps on a tiny model, stop at step k (around the integer-resolution limits of half precision), resume, continue."""
    out = Outcome()
    config = {"groups": [{"cfg": case["cfg"], "shapes": case["shapes"]}], "pseed": case["seed"]}
    A = history.OptRunner(config, check_reference=False)
    if A.failed_construct:
        out.failures.append(A.failed_construct)
        return out
    n = len(case["shapes"])
    k, extra = case["k"], case["extra"]

    def step_of(t: int) -> dict:
        return {"mask": [True] * n, "gseed": case["seed"] * 1000 + t, "gkind": "gauss", "gscale": 1.0}

    for t in range(k):
        e = A.raw_step(step_of(t))
        if e is not None:
            out.classes.append("uninterrupted_run_raised")
            return out
    ok, sd = call_sut(out, "C09.save", "distributed_state_dict", lambda: _save(A))
    if not ok:
        return out
    rec = _record(A)
    B = history.OptRunner(config, check_reference=False)
    with torch.no_grad():
        for q, src in zip(B.all_params(), rec["params"]):
            q.copy_(src)
    ok, _ = call_sut(out, "C09.load", f"load_distributed_state_dict at crash point k={k}", lambda: B.opt.load_distributed_state_dict(sd, key_to_param=iter(B.named_params())))
    if not ok:
        return out
    B.hp, B.t = [dict(h) for h in rec["hp"]], list(rec["t"])
    d = _same(rec, B)
    if d is not None:
        out.fail("C09.restore", "state right after load differs from the saved run", f"k={k} ({case['cfg']['pdtype']} parameters): {d}")
        return out
    for t in range(k, k + extra):
        ea, eb = A.raw_step(step_of(t)), B.raw_step(step_of(t))
        if ea is not None or eb is not None:
            if (ea is None) != (eb is None):
                out.fail("C09.resume", "resumed run differs from the uninterrupted run in raising", f"k={k} step {t + 1}: {ea!r} vs {eb!r}")
            return out
        d = _same(_record(A), B)
        if d is not None:
            out.fail("C09.resume", "resumed run diverges from the uninterrupted run", f"k={k} step {t + 1}: {d}")
            return out
    out.sub_evaluations = 1
    out.nontrivial = True
    out.classes += [f"pdtype_{case['cfg']['pdtype']}", f"k_{k}"]
    return out


# --------------------------------------------------------------------------- DDP (DTensor) state layout on the simulator
def strategy_ddp():
    from hypothesis import strategies as st

    from . import c06

    @st.composite
    def case(draw: Any) -> dict:
        c = draw(c06.strategy())
        T = len(c["steps"])
        c["k"] = draw(st.integers(1, max(1, T - 1)))
        return c

    return case()


def oracle_ddp(case: dict) -> Outcome:
    from .. import dist_common as dc

    out, info = dc.run_case(case, "C09.ddp.world", checkpoint_at=case["k"])
    pb = info.get("pb")
    if pb is None or out.failures or any(r is None for r in info.get("results") or [None]):
        return out
    k = case["k"]
    T = len(pb.steps)
    kinds: set = set()
    for r, res in enumerate(info["results"]):
        ck = res.get("ckpt")
        if ck is None:
            continue
        kinds |= set(res.get("ckpt_kinds", []))
        for j, t in enumerate(range(k, T)):
            a, b = res["snaps"][t], ck["snaps"][j]
            if any(not rm.bitwise_equal(x, y) for x, y in zip(a, b)):
                out.fail("C09.ddp.resume", "resumed DDP optimizer diverges from the uninterrupted run", f"rank {r} stop step {k} step {t + 1}")
                return out
            if not ck["state_equal"][j]:
                out.fail("C09.ddp.resume", "resumed DDP optimizer state differs from the uninterrupted run", f"rank {r} stop step {k} step {t + 1}")
                return out
        out.sub_evaluations += 1
    out.nontrivial = pb.W >= 2 and pb.group_size >= 2 and 0 < k < T
    out.classes += [f"W{pb.W}", f"group{pb.group_size}"] + sorted(kinds)
    return out


STREAMS = {
    "roundtrip": Stream("roundtrip", oracle=oracle, strategy=strategy, quick=480, thorough=4000, shards_quick=16, shards_thorough=16),
    "long_run": Stream("long_run", oracle=oracle_long, strategy=strategy_long, quick=48, thorough=300, shards_quick=16, shards_thorough=16),
    "ddp_layout": Stream("ddp_layout", oracle=oracle_ddp, strategy=strategy_ddp, quick=160, thorough=1500, shards_quick=16, shards_thorough=16),
}
