"""C11 - inverse roots are symmetric positive definite and finite on degenerate input.

Algebraic laws of the eigendecomposition-based inverse root on finite symmetric inputs (zero matrix, rank-deficient, exactly repeated
eigenvalues, slightly negative eigenvalues), each stated at its backward-error level:
  finite; symmetric; largest eigenvalue <= eps^(-1/r); positive definite (when resolvable, else >= -K n u ||X||); commutes with the input;
  orthogonally equivariant f(Q A Q^T) = Q f(A) Q^T.  Non-square / non-2-D inputs with more than one element are rejected with ValueError
  for every solver configuration.
"""
from __future__ import annotations

import math
from typing import Any

import torch

from .. import matgen
from ..core import Outcome, Stream, call_sut

LEVEL = "exploration"
RULE = (
    "laws: case = (n in 1..64, spectrum recipe incl. zero matrix / exact zeros / exact repeats / one negative eigenvalue of relative size 1e-7..1e-3, "
    "scale 1e-6..1e6, basis, epsilon >= 16*u*scale, positive rational root, float32/float64, Eigen with/without enhance_stability, a random orthogonal Q "
    "for equivariance). Non-trivial = the input has a zero or negative eigenvalue. shapes: every non-square / non-2-D shape with > 1 element up to order 4 "
    "x 4 solver configs. Distinct = canonical JSON."
)
BOUNDS = "n <= 64; eigenvalues in [-1e-3*scale, scale]; eps >= 16*u*scale; scales 1e-6..1e6 plus 1e+-20..1e+-30 (float32) and 1e+-60..1e+-100 (float64; beyond 1e+-140 the float64 oracle abstains)"
TOLERANCES = "K = 64: symmetry K n u ||X||; commute K n u kappa^(1/r)-free bound ||A|| ||X||; lambda_max <= eps^(-1/r) (1 + K n u kappa / r); SPD when K n u kappa^(1/r) < 1; equivariance K*(n u kappa max(1,1/r) + exponent term) ||f(A)||"
ASSUMPTIONS = ["epsilon is not below the dtype resolution of the matrix scale (the property's stated domain)"]
NONTRIVIAL_FLOOR = 100
K = 64.0
D = torch.float64
U32 = 2.0**-24


def oracle(case: dict) -> Outcome:
    import matrix_functions as mf
    from matrix_functions_types import EigenConfig

    out = Outcome()
    n, dt = case["n"], {"f32": torch.float32, "f64": torch.float64}[case["dtype"]]
    u = float(torch.finfo(dt).eps) / 2
    A, lam, V = matgen.make_matrix(n, case["recipe"], dt)
    if case.get("layout") == "col" and n > 1:
        A = A.t().contiguous().t()  # same symmetric matrix, column-major memory layout (what .T / linalg.inv / cholesky_inverse hand back)
    scale = float(A.to(D).abs().max()) or case["recipe"].get("scale", 1.0)
    eps = max(case["eps_rel"], 16 * u) * scale
    rootf = matgen.root_fraction(case["root"])
    r = float(rootf)
    cfg = EigenConfig(enhance_stability=case["stab"])
    L = torch.linalg.eigvalsh(A.to(D))
    if float(L.min()) < -1e-3 * max(float(L.max()), 1e-300):
        out.classes.append("outside_domain_too_negative")  # the property covers eigenvalues in [-1e-3*scale, scale]
        return out
    if case["recipe"].get("struct"):
        out.classes.append("structured_" + case["recipe"]["struct"])
    Ls = L - min(float(L.min()), 0.0) + eps
    kappa = float(Ls.max() / Ls.min())
    try:
        peak = float(Ls.min()) ** (-1.0 / r)
        low = float(Ls.max()) ** (-1.0 / r)
    except OverflowError:
        peak, low = float("inf"), 0.0
    if not math.isfinite(peak) or peak > 1e-3 * float(torch.finfo(dt).max) or low < 1e3 * float(torch.finfo(dt).tiny):
        out.classes.append("overflow_domain")
        return out
    if dt == torch.float64 and (peak > 1e140 or low < 1e-140 or scale > 1e140 or scale < 1e-140):
        out.classes.append("beyond_oracle_range")  # the float64 oracle squares these quantities (Frobenius norms); nothing asserted
        return out
    out.nontrivial = bool((L <= 16 * n * u * scale).any()) and n >= 2
    ok, X = call_sut(out, "C11.call", "matrix_inverse_root", lambda: mf.matrix_inverse_root(A, rootf, cfg, epsilon=eps))
    if not ok:
        return out
    Xd = X.to(D)
    cl = out.classes
    cl += [case["dtype"], "stab" if case["stab"] else "plain"] + (["extreme_scale"] if (scale > 1e15 or scale < 1e-15) else [])
    if float(L.min()) < 0:
        cl.append("negative_eigenvalue")
    if case["recipe"]["kind"] == "zero":
        cl.append("zero_matrix")
    if not bool(torch.isfinite(Xd).all()):
        out.fail("C11.finite", "inverse root is not finite", f"n={n} kappa={kappa:.2e} eps={eps:.3e} root={r:.4g}")
        return out
    if n == 1:
        if not float(Xd.reshape(-1)[0]) > 0:
            out.fail("C11.spd", "1x1 inverse root is not positive")
        return out
    xn = float(torch.linalg.matrix_norm(Xd, 2))
    sym = float((Xd - Xd.T).norm())
    out.metric("sym_over_nuX", sym / (n * u * xn))
    if sym > K * n * u * xn:
        out.fail("C11.symmetric", "inverse root is not symmetric", f"n={n} ||X-X^T||={sym:.3e} bound={K * n * u * xn:.3e}")
    ev = torch.linalg.eigvalsh((Xd + Xd.T) / 2)
    amp = max(1.0, 1.0 / r)
    cap = eps ** (-1.0 / r)
    lam_bound = cap * (1 + K * n * u * kappa * amp + (2.0 / r) * U32 * abs(math.log(eps)) * 4)
    out.metric("lammax_excess_over_term", (float(ev.max()) / cap - 1) / (n * u * kappa * amp + 1e-7))
    if float(ev.max()) > lam_bound:
        out.fail("C11.lambda_max", "largest eigenvalue of the inverse root exceeds eps^(-1/r)", f"n={n} lmax={float(ev.max()):.6e} cap={cap:.6e} kappa={kappa:.2e}")
    kx = kappa ** (1.0 / r)
    if K * n * u * kx < 1:
        if not float(ev.min()) > 0:
            out.fail("C11.spd", "inverse root is not positive definite", f"n={n} lmin={float(ev.min()):.3e} cond(X)={kx:.2e}")
        cl.append("spd_resolvable")
    elif float(ev.min()) < -K * n * u * xn:
        out.fail("C11.spd", "inverse root has an eigenvalue below -K n u ||X||", f"n={n} lmin={float(ev.min()):.3e}")
    Ad = A.to(D)
    an = float(torch.linalg.matrix_norm(Ad, 2))
    comm = float((Ad @ Xd - Xd @ Ad).norm())
    out.metric("commute_over_nuAX", comm / (n * u * an * xn + 1e-300))
    if comm > K * n * u * an * xn:
        out.fail("C11.commutes", "inverse root does not commute with the input", f"n={n} ||AX-XA||={comm:.3e} bound={K * n * u * an * xn:.3e}")
    # orthogonal equivariance
    g = torch.Generator().manual_seed(case["qseed"])
    Q = torch.linalg.qr(torch.randn(n, n, generator=g, dtype=D)).Q
    B = Q @ Ad @ Q.T
    B = ((B + B.T) / 2).to(dt)
    B = torch.triu(B) + torch.triu(B, 1).T
    ok, Y = call_sut(out, "C11.call", "matrix_inverse_root(Q A Q^T)", lambda: mf.matrix_inverse_root(B, rootf, cfg, epsilon=eps))
    if ok:
        Yd = Y.to(D)
        dev = float(torch.linalg.matrix_norm(Yd - Q @ Xd @ Q.T, 2)) / xn
        # forming Q A Q^T in finite precision perturbs A by ~ n u ||A||; lambda_min of B may differ from that of A by the same amount,
        # which changes the shift: relative effect on f bounded by n u kappa / r (first order)
        eb = K * (n * u * kappa * amp) + (2.0 / r) * U32 * max(abs(math.log(float(Ls.min()))), abs(math.log(float(Ls.max())))) * 4 + K * u
        if eb < 0.1:
            cl.append("equivariance_informative")
            out.metric("equivariance_over_bound", dev / eb)
            if dev > eb:
                out.fail("C11.equivariance", "inverse_root(Q A Q^T) differs from Q inverse_root(A) Q^T", f"n={n} kappa={kappa:.2e} dev={dev:.3e} bound={eb:.3e}")
    return out


def strategy():
    return _strategy(24)


def strategy_large():
    return _strategy(64)


def _strategy(nmax: int):
    from hypothesis import strategies as st

    @st.composite
    def case(draw: Any) -> dict:
        dtype = draw(st.sampled_from(["f32", "f64"]))
        recipe = draw(matgen.st_recipe(max_logk=4.0 if dtype == "f32" else 9.0, allow_neg=True, allow_zero=True))
        if draw(st.sampled_from([False] * 7 + [True])):
            # the property puts no bound on the scale: matrices near the ends of the dtype's exponent range (entries representable, squares / norms not)
            recipe["scale"] = draw(st.sampled_from([1e20, 1e30, 1e-20, 1e-30, 3e19] if dtype == "f32" else [1e100, 1e-100, 1e60, 1e-60]))
        return {"n": (draw(st.one_of(st.integers(2, min(10, nmax)), st.integers(1, nmax))) if nmax <= 24 else draw(st.one_of(st.integers(25, nmax), st.sampled_from([32, 33, 64])))), "dtype": dtype, "recipe": recipe,
                "eps_rel": draw(st.one_of(st.floats(-8, 0).map(lambda e: 10.0**e), st.sampled_from([1e-6, 1e-3, 1.0]))),
                "root": draw(matgen.st_root()), "stab": draw(st.booleans()), "qseed": draw(st.integers(0, 10**6)), "layout": draw(st.sampled_from(["row", "row", "col"]))}

    return case()


# --------------------------------------------------------------------------- shape rejection
def strategy_shapes():
    from hypothesis import strategies as st

    return st.fixed_dictionaries({"shape": st.lists(st.integers(1, 4), min_size=0, max_size=4), "solver": st.sampled_from(["eigen", "eigen_stab", "newton", "higher"]),
                                  "diag": st.booleans()})


def oracle_shapes(case: dict) -> Outcome:
    import matrix_functions as mf
    from fractions import Fraction

    from matrix_functions_types import CoupledHigherOrderConfig, CoupledNewtonConfig, EigenConfig

    out = Outcome()
    shape = tuple(case["shape"])
    numel = math.prod(shape)
    bad = numel > 1 and not (len(shape) == 2 and shape[0] == shape[1])
    cfg = {"eigen": EigenConfig(), "eigen_stab": EigenConfig(enhance_stability=True), "newton": CoupledNewtonConfig(), "higher": CoupledHigherOrderConfig()}[case["solver"]]
    A = torch.ones(shape) if numel else torch.zeros(shape)
    out.nontrivial = bad
    if not bad:
        return out
    try:
        mf.matrix_inverse_root(A, Fraction(2), cfg, epsilon=1e-3, is_diagonal=case["diag"])
        out.fail("C11.rejects_bad_shapes", "a non-square / non-2-D input with more than one element was accepted", f"shape {shape} solver {case['solver']}")
    except ValueError:
        pass
    except Exception as e:  # noqa: BLE001
        out.fail("C11.rejects_bad_shapes", f"bad shape raises {type(e).__name__} instead of ValueError", f"shape {shape} solver {case['solver']}: {e}")
    out.classes.append(f"order{len(shape)}")
    return out


STREAMS = {
    "laws": Stream("laws", oracle=oracle, strategy=strategy, quick=10000, thorough=100000, shards_quick=16, shards_thorough=16),
    "laws_large": Stream("laws_large", oracle=oracle, strategy=strategy_large, quick=320, thorough=6000, shards_quick=8, shards_thorough=16),
    "shapes": Stream("shapes", oracle=oracle_shapes, strategy=strategy_shapes, quick=1500, thorough=10000, shards_quick=2, shards_thorough=4),
}
