"""C16 - state-dict flatten/unflatten and OptimizerModule state round-trip losslessly.

Streams
  flatten : recursive Hypothesis strategy for nested dicts over string and integer keys (full unicode, separators, quotes,
            brackets, JSON-looking strings, "1" next to 1, the empty string) with tensor leaves and optional leafless sub-dicts.
            Oracle: injectivity (one flat key per leaf), every flat key is a str, unflatten(flatten(d)) == prune_leafless(d) with
            identical key types and identical tensor objects.
  module  : generated OptimizerModule object graphs (tensors, nested modules, dicts, lists, tuples, non-tensor scalars).
            Oracle: the tensors in state_dict() are exactly the tensors reachable through the graph; loading the state dict of a
            structurally equal module with other values reproduces every value *in place* (same tensor objects and storage,
            containers keep their types).
  restore : update_param_state_dict_object(s', unflatten(flatten(extract(s)))) succeeds for structurally equal s', s' even when s has
            leafless sub-dicts / modules ("restoring state never depends on them"), and still raises when a tensor entry is missing.
"""
from __future__ import annotations

import json
from typing import Any

import torch

from ..core import Outcome, Stream, call_sut

LEVEL = "exploration"
RULE = (
    "flatten: case = nested dict of depth <= 6 with <= 4 children per node, keys from text (incl. the characters \" \\ [ ] , / . whitespace, "
    "empty string, JSON-looking strings, digit strings) and integers (negative, large); leaves are distinct tensors; leafless sub-dicts "
    "allowed. Non-trivial = depth >= 2 and >= 2 leaves. module: case = OptimizerModule graph of depth <= 4. Non-trivial = >= 2 tensors and a "
    "nested container. Distinct = canonical JSON of the structure recipe."
)
BOUNDS = "depth <= 6, <= 4 children per node (sequences / integer-keyed dicts of up to 25 entries), <= ~40 leaves"
ASSUMPTIONS = ["sets are not generated (their enumeration order is undefined and the property does not list them)"]
NONTRIVIAL_FLOOR = 50

SPECIAL_KEYS = ['"', "\\", "[", "]", ",", "/", ".", " ", "", '["a"]', '["a", "b"]', "1", "0", "a/b", "a.b", "a,b", "null", "true", "\n", "\u2028", "é", "\U0001F600", "block_0", "shampoo"]


# --------------------------------------------------------------------------- recipes -> objects
def build_tree(r: Any, counter: list) -> Any:
    """recipe: {"d": [[key, child], ...]} dict node | "t" leaf"""
    if r == "t":
        counter[0] += 1
        return torch.tensor(float(counter[0]))
    d = {}
    for k, child in r["d"]:
        d[_key(k)] = build_tree(child, counter)
    return d


def _key(k: Any) -> Any:
    return k["i"] if isinstance(k, dict) else k


def prune(d: dict) -> dict:
    out = {}
    for k, v in d.items():
        if isinstance(v, dict):
            pv = prune(v)
            if pv:
                out[k] = pv
        else:
            out[k] = v
    return out


def count_leaves(d: dict) -> int:
    return sum(count_leaves(v) if isinstance(v, dict) else 1 for v in d.values())


def depth(d: Any) -> int:
    return 1 + max([depth(v) for v in d.values() if isinstance(v, dict)] + [0]) if isinstance(d, dict) else 0


def same_tree(a: Any, b: Any, path: str = "") -> str | None:
    if isinstance(a, dict):
        if not isinstance(b, dict):
            return f"{path}: dict vs {type(b).__name__}"
        ka = sorted(((type(k).__name__, repr(k)) for k in a))
        kb = sorted(((type(k).__name__, repr(k)) for k in b))
        if ka != kb:
            return f"{path}: keys {ka[:4]} vs {kb[:4]}"
        for k in a:
            r = same_tree(a[k], b[k], f"{path}/{k!r}")
            if r:
                return r
        return None
    return None if a is b else f"{path}: leaf object differs"


def oracle_flatten(case: dict) -> Outcome:
    from distributed_shampoo.utils.shampoo_checkpoint_utils import flatten, unflatten

    out = Outcome()
    d = build_tree(case["tree"], [0])
    nleaves = count_leaves(d)
    out.nontrivial = depth(d) >= 2 and nleaves >= 2
    if case.get("primer"):
        try:
            unflatten(flatten(_twin(d)))
        except Exception:  # noqa: BLE001 - out-of-domain input, only there to vary the call history
            pass
        out.classes.append("after_equal_keys_of_other_types")
    ok, f = call_sut(out, "C16.flatten", "flatten", lambda: flatten(d))
    if not ok:
        return out
    if not all(isinstance(k, str) for k in f):
        out.fail("C16.flat_keys_are_str", "a flat key is not a string")
    if len(f) != nleaves:
        out.fail("C16.injective", "distinct key paths collide in the flat dictionary", f"{nleaves} leaves, {len(f)} flat keys")
    ok, u = call_sut(out, "C16.unflatten", "unflatten", lambda: unflatten(f))
    if not ok:
        return out
    r = same_tree(prune(d), u)
    if r is None:
        r = same_tree(u, prune(d))
    if r:
        out.fail("C16.roundtrip", "unflatten(flatten(d)) differs from d without its leafless sub-dictionaries", r)
    cl = out.classes
    if prune(d) != d or count_leaves(d) == 0:
        cl.append("leafless_subdict")
    ks = _all_keys(d)
    if any(isinstance(k, str) and any(ch in k for ch in '"\\[],/. ') for k in ks):
        cl.append("special_character_key")
    if any(isinstance(k, int) for k in ks) and any(isinstance(k, str) and k.lstrip("-").isdigit() for k in ks):
        cl.append("int_and_digit_string_keys")
    cl.append(f"depth{depth(d)}")
    return out


def _all_keys(d: dict) -> list:
    r = []
    for k, v in d.items():
        r.append(k)
        if isinstance(v, dict):
            r.extend(_all_keys(v))
    return r


# --------------------------------------------------------------------------- modules
def _module_cls():
    from optimizer_modules import OptimizerModule

    class M(OptimizerModule):
        def __init__(self, **kw: Any) -> None:
            self.__dict__.update(kw)

    return M, OptimizerModule


def build_obj(r: Any, counter: list, M: Any, shift: float = 0.0) -> Any:
    """recipe: ["t"] tensor | ["s", scalar] | ["l", [...]] | ["u", [...]] tuple | ["d", [[k, v]...]] | ["m", [[name, v]...]]"""
    tag = r[0]
    if tag == "t":
        counter[0] += 1
        return torch.tensor([float(counter[0]) + shift, 0.5])
    if tag == "tt":
        # a 2-D state tensor that is a transposed view (non-contiguous); in-place loading must still reach it
        counter[0] += 1
        return (torch.arange(6, dtype=torch.float32).reshape(3, 2) + float(counter[0]) + shift).t()
    if tag == "al":
        # two different tensors that overlap in memory and start at the same address: a leading-row view listed before the matrix it belongs to
        # (a module that keeps both a buffer and a window into it)
        counter[0] += 1
        base = torch.arange(6, dtype=torch.float32).reshape(3, 2) + float(counter[0]) + shift
        return [base[0], base] if r[1] else (base, base[0])
    if tag == "s":
        return r[1]
    if tag == "l":
        return [build_obj(x, counter, M, shift) for x in r[1]]
    if tag == "u":
        return tuple(build_obj(x, counter, M, shift) for x in r[1])
    if tag == "d":
        return {_key(k): build_obj(v, counter, M, shift) for k, v in r[1]}
    if tag == "m":
        return M(**{k: build_obj(v, counter, M, shift) for k, v in r[1]})
    raise ValueError(tag)


def reach(o: Any, OM: Any, acc: list, path: tuple = ()) -> list:
    if isinstance(o, torch.Tensor):
        acc.append((path, o))
    elif isinstance(o, OM):
        for k, v in o.__dict__.items():
            reach(v, OM, acc, path + (k,))
    elif isinstance(o, dict):
        for k, v in o.items():
            reach(v, OM, acc, path + (k,))
    elif isinstance(o, (list, tuple)):
        for i, v in enumerate(o):
            reach(v, OM, acc, path + (i,))
    return acc


def sd_tensors(d: Any, acc: list, path: tuple = ()) -> list:
    if isinstance(d, torch.Tensor):
        acc.append((path, d))
    elif isinstance(d, dict):
        for k, v in d.items():
            sd_tensors(v, acc, path + (k,))
    return acc


def container_types(o: Any, OM: Any, path: tuple = ()) -> dict:
    res = {path: type(o).__name__}
    if isinstance(o, OM):
        for k, v in o.__dict__.items():
            res.update(container_types(v, OM, path + (k,)))
    elif isinstance(o, dict):
        for k, v in o.items():
            res.update(container_types(v, OM, path + (k,)))
    elif isinstance(o, (list, tuple)):
        for i, v in enumerate(o):
            res.update(container_types(v, OM, path + (i,)))
    return res


def reorder(d: Any, how: str) -> Any:
    """An equal dictionary with a different insertion order (a checkpoint store may return entries sorted, reversed, ...)."""
    if not isinstance(d, dict) or how == "natural":
        return d
    keys = list(d.keys())
    if how == "reversed":
        keys = keys[::-1]
    elif how == "sorted_str":
        keys = sorted(keys, key=lambda k: str(k))
    elif how == "sorted_str_desc":
        keys = sorted(keys, key=lambda k: str(k), reverse=True)
    return {k: reorder(d[k], how) for k in keys}


def oracle_module(case: dict) -> Outcome:
    out = Outcome()
    M, OM = _module_cls()
    m = build_obj(case["mod"], [0], M)
    src = build_obj(case["mod"], [0], M, shift=1000.0)  # structurally equal, different values
    ts = reach(m, OM, [])
    ok, sd = call_sut(out, "C16.state_dict", "state_dict", lambda: m.state_dict())
    if not ok:
        return out
    st = sd_tensors(sd, [])
    # every reachable tensor is in the state dict, under its own path, sharing storage (detached view)
    want = sorted((p, t.data_ptr()) for p, t in ts)
    got = sorted((p, t.data_ptr()) for p, t in st)
    if want != got:
        out.fail("C16.module.reachability", "state_dict does not contain exactly the reachable tensors",
                 f"reachable {len(want)} in state_dict {len(got)}; missing {[p for p, _ in want if (p, _) not in got][:3]} extra {[p for p, _ in got if (p, _) not in want][:3]}")
    ids = [(p, id(t), t.data_ptr()) for p, t in ts]
    types0 = container_types(m, OM)
    sd_src = reorder(src.state_dict(), case.get("order", "natural"))
    ok, _ = call_sut(out, "C16.load_state_dict", "load_state_dict", lambda: m.load_state_dict(sd_src))
    if not ok:
        return out
    ts2 = reach(m, OM, [])
    if [(p, id(t), t.data_ptr()) for p, t in ts2] != ids:
        out.fail("C16.module.in_place", "load_state_dict replaced tensor objects instead of copying in place")
    else:
        tsrc = reach(src, OM, [])
        for (p, a), (_, b) in zip(ts2, tsrc):
            if not torch.equal(a, b):
                out.fail("C16.module.values", "a tensor value was not reproduced by load_state_dict", f"path {p}")
                break
    if container_types(m, OM) != types0:
        out.fail("C16.module.container_types", "load_state_dict changed a container type")
    nested = any(len(p) >= 2 for p, _ in ts)
    out.nontrivial = len(ts) >= 2 and nested
    cl = out.classes
    tags = json.dumps(case["mod"])
    for tag, name in (('["m"', "nested_module"), ('["u"', "tuple"), ('["l"', "list"), ('["d"', "dict"), ('["s"', "non_tensor")):
        if tags.count(tag) > (1 if tag == '["m"' else 0):
            cl.append(name)
    return out


def oracle_restore(case: dict) -> Outcome:
    """Consumer: a checkpoint produced from s loads into a structurally equal s' although leafless entries were dropped."""
    from distributed_shampoo.utils.shampoo_checkpoint_utils import extract_state_dict_content, flatten, unflatten, update_param_state_dict_object

    out = Outcome()
    M, OM = _module_cls()
    s = build_obj(case["state"], [0], M)
    s2 = build_obj(case["state"], [0], M, shift=1000.0)
    if not isinstance(s, dict):
        return out
    ok, flat = call_sut(out, "C16.restore.save", "flatten(extract_state_dict_content(s))", lambda: flatten(extract_state_dict_content(s)))
    if not ok:
        return out
    ts = reach(s, OM, [])
    if len(flat) != len(ts):
        out.fail("C16.restore.injective", "saved entries differ from the number of reachable tensors", f"{len(flat)} vs {len(ts)}")
        return out
    flat = reorder(flat, case.get("order", "natural"))
    ok, _ = call_sut(out, "C16.restore.load", "update_param_state_dict_object(s', unflatten(flatten(extract(s))))",
                     lambda: update_param_state_dict_object(s2, unflatten(flat)))
    if not ok:
        return out
    for (p, a), (_, b) in zip(reach(s2, OM, []), ts):
        if not torch.equal(a, b):
            out.fail("C16.restore.values", "a tensor value was not restored", f"path {p}")
            break
    # negative: a missing tensor entry must raise KeyError
    if flat:
        keys = sorted(flat)
        victim = keys[case.get("pick", 0) % len(keys)]
        flat2 = {k: v for k, v in flat.items() if k != victim}
        s3 = build_obj(case["state"], [0], M, shift=2000.0)
        try:
            update_param_state_dict_object(s3, unflatten(flat2))
            out.fail("C16.restore.missing_entry", "a checkpoint lacking a tensor entry was accepted", f"victim {victim}")
        except KeyError:
            pass
        except Exception as e:  # noqa: BLE001
            out.classes.append(f"missing_entry_raises_{type(e).__name__}")
    tags = json.dumps(case["state"])
    leafless = '["d", []]' in tags or '["m", []]' in tags or '["l", []]' in tags or '["u", []]' in tags
    out.nontrivial = len(ts) >= 1 and leafless
    if leafless:
        out.classes.append("leafless_entry")
    return out


# --------------------------------------------------------------------------- strategies
def _keys():
    from hypothesis import strategies as st

    return st.one_of(
        st.text(max_size=6),
        st.sampled_from(SPECIAL_KEYS),
        st.integers(-5, 5).map(lambda i: {"i": i}),
        st.integers(-(2**62), 2**62).map(lambda i: {"i": i}),
        st.text(alphabet='"\\[],/. ab1', max_size=5),
    )


def strategy_flatten():
    from hypothesis import strategies as st

    def node(children: Any) -> Any:
        return st.lists(st.tuples(_keys(), children), max_size=4, unique_by=lambda kv: (type(_key(kv[0])).__name__, repr(_key(kv[0])))).map(lambda l: {"d": [list(x) for x in l]})

    leafy = st.recursive(node(st.just("t")), lambda ch: node(st.one_of(st.just("t"), ch)), max_leaves=25)
    return st.fixed_dictionaries({"tree": leafy, "primer": st.sampled_from([False, False, False, True])})


def _twin(d: Any) -> Any:
    """The same nesting with every integer key replaced by a key that compares (and hashes) equal but has another type: 1 -> True, 0 -> False,
    n -> float(n).  Such keys are outside the property's domain; the twin is only flattened *before* the real case so that the process has a
    different call history (flatten / unflatten must be pure functions of their argument)."""
    if not isinstance(d, dict):
        return d
    out = {}
    for k, v in d.items():
        if isinstance(k, bool) or not isinstance(k, int):
            kk = k
        elif k in (0, 1):
            kk = bool(k)
        else:
            kk = float(k)
        out[kk] = _twin(v)
    return out


def _values(allow_module: bool = True):
    from hypothesis import strategies as st

    names = st.sampled_from(["a", "b", "c", "d", "factor_matrices", "x1"])
    dkeys = st.one_of(st.sampled_from(["k", "0", "1", "a.b"]), st.text(max_size=3))

    def ext(ch: Any) -> Any:
        opts = [
            st.lists(ch, max_size=3).map(lambda l: ["l", l]),
            st.lists(ch, max_size=3).map(lambda l: ["u", l]),
            st.integers(11, 13).map(lambda n: ["u", [["t"]] * n]),
            # a long sequence / integer-keyed dict (>= 11 entries: keys 1 and 10..19 share a decimal prefix) in which one entry holds no tensor at all
            st.tuples(st.integers(11, 25), st.integers(0, 24), st.sampled_from(["l", "u", "di"]), st.sampled_from([["d", []], ["l", []], ["s", None], ["m", []]])).map(
                lambda t: ([t[2], [(t[3] if i == t[1] % t[0] else ["t"]) for i in range(t[0])]] if t[2] != "di"
                           else ["d", [[{"i": i}, (t[3] if i == t[1] % t[0] else ["t"])] for i in range(t[0])]])),
            st.lists(st.tuples(dkeys, ch), max_size=3, unique_by=lambda kv: kv[0]).map(lambda l: ["d", [list(x) for x in l]]),
        ]
        if allow_module:
            opts.append(st.lists(st.tuples(names, ch), max_size=3, unique_by=lambda kv: kv[0]).map(lambda l: ["m", [list(x) for x in l]]))
        return st.one_of(*opts)

    base = st.one_of(st.just(["t"]), st.just(["t"]), st.just(["tt"]), st.sampled_from([["al", True], ["al", False]]), st.sampled_from([["s", 3], ["s", "txt"], ["s", 2.5], ["s", None], ["s", True]]))
    return st.recursive(base, ext, max_leaves=14), names


def strategy_module():
    from hypothesis import strategies as st

    vals, names = _values()
    return st.fixed_dictionaries({"mod": st.lists(st.tuples(names, vals), min_size=1, max_size=4, unique_by=lambda kv: kv[0]).map(lambda l: ["m", [list(x) for x in l]]),
                                  "order": st.sampled_from(["natural", "reversed", "sorted_str", "sorted_str_desc"])})


def strategy_restore():
    from hypothesis import strategies as st

    from hypothesis import strategies as st2

    # optimizer param-state shape: dict -> (tensor | dict | module), modules hold tensors in tuples/dicts (as the Kronecker factor state does)
    tens = st.sampled_from([["t"], ["t"], ["tt"]])
    tup = st.one_of(st.lists(tens, max_size=3), st.integers(11, 12).map(lambda n: [["t"]] * n)).map(lambda l: ["u", l])
    mod = st.lists(st.tuples(st.sampled_from(["factor_matrices", "inv_factor_matrices", "flags", "vals"]), st.one_of(tup, tens)), max_size=3,
                   unique_by=lambda kv: kv[0]).map(lambda l: ["m", [list(x) for x in l]])
    # an integer-keyed sub-dictionary / a long tuple with 11-25 entries (keys 1 and 10..19, 2 and 20..25 share a decimal prefix) one of which holds no tensor
    intdict = st.tuples(st.integers(11, 25), st.integers(0, 24), st.sampled_from([["d", []], ["m", []]]), st.booleans()).map(
        lambda t: ["d", [[{"i": (-i if t[3] else i)}, (t[2] if i == t[1] % t[0] else ["t"])] for i in range(t[0])]])
    block = st.lists(st.tuples(st.sampled_from(["shampoo", "momentum", "filtered_grad", "adagrad", "sub"]), st.one_of(tens, mod, st.just(["d", []]), intdict)), max_size=4,
                     unique_by=lambda kv: kv[0]).map(lambda l: ["d", [list(x) for x in l]])
    top = st.lists(st.tuples(st.sampled_from(["block_0", "block_1", "block_2", "step"]), st.one_of(block, tens)), min_size=1, max_size=4,
                   unique_by=lambda kv: kv[0]).map(lambda l: ["d", [list(x) for x in l]])
    _ = st2
    return st.fixed_dictionaries({"state": top, "pick": st.integers(0, 1000), "order": st.sampled_from(["natural", "reversed", "sorted_str", "sorted_str_desc"])})


STREAMS = {
    "flatten": Stream("flatten", oracle=oracle_flatten, strategy=strategy_flatten, quick=20000, thorough=200000, shards_quick=8, shards_thorough=16),
    "module": Stream("module", oracle=oracle_module, strategy=strategy_module, quick=8000, thorough=80000, shards_quick=4, shards_thorough=16),
    "restore": Stream("restore", oracle=oracle_restore, strategy=strategy_restore, quick=6000, thorough=60000, shards_quick=4, shards_thorough=16),
}
