"""C01 - every step follows the documented Shampoo update rule.

Streams
  history : Hypothesis rule-based state machine over a live optimizer; after every step() each block with a
            gradient is compared with the one-step-ahead float64 reference (vf/refmodel.py) computed from the
            optimizer's own previous state; inverse roots are compared with a float64 spectral oracle on refresh
            steps and must be bitwise unchanged otherwise; blocks without a gradient must be bitwise untouched;
            the group step counter advances iff the group has a gradient; hyperparameter edits take effect at the
            next step.
  groups  : metamorphic - one optimizer with k param groups vs k independent optimizers built with each group's
            effective hyperparameters: parameters and every state tensor bitwise equal after every step.
"""
from __future__ import annotations

from typing import Any

import torch

from .. import gen, history, refmodel as rm
from ..core import Outcome, Stream, call_sut

LEVEL = "exploration"
RULE = (
    "history stream: case = (1-3 param groups, each a full hyperparameter configuration incl. dtype pairing, grafting, solver, "
    "override, ignored dims; 1-4 parameter shapes of order 0-4 per group; a generated sequence of steps with gradient-presence "
    "masks, gradient recipes and lr/weight-decay/momentum edits). Non-trivial = the history reaches >= 1 refresh step and >= 1 later "
    "non-refresh step and the optimizer has >= 2 blocks. groups stream: non-trivial = >= 2 groups whose hyperparameters differ and "
    ">= 2 steps. Distinct = distinct canonical JSON of the whole history."
)
BOUNDS = "orders 0-4, numel <= 300 per parameter, <= 4 parameters per group (possibly of different dtypes, possibly frozen), <= 3 groups, <= 12 (quick) / 30 (thorough) steps incl. rollbacks into the live optimizer; long_history: tiny models, <= 70 / 150 steps; late_start: start_preconditioning_step 257-1030, up to 1160 checked steps"
TOLERANCES = (
    f"||actual - predicted||_F <= {rm.K_TOL} * running first-order rounding bound (refmodel.py); inverse roots: {rm.INV_C}*n*u*kappa + "
    f"bias-correction and float32-exponent terms, skipped as uninformative when the bound exceeds {rm.UNINFORMATIVE}"
)
ASSUMPTIONS = [
    "the reference model in vf/refmodel.py is a faithful reading of the class docstring / README update rule",
    "torch float64 linear algebra (eigh, tensordot) is accurate to float64 round-off",
    "iterative root solvers (coupled Newton / higher order) are checked for accuracy in C10 only; here their stored roots are taken as state",
]
NONTRIVIAL_FLOOR = 20


class Runner(history.OptRunner):
    PREFIX = "C01"


def config_strategy():
    return history.st_history_config(max_groups=3, max_params=4, kinds=("shampoo", "shampoo", "shampoo", "soap"))


def step_strategy(runner: Runner):
    return history.st_history_step(runner)


# --------------------------------------------------------------------------- groups (metamorphic)
def groups_strategy():
    from hypothesis import strategies as st

    @st.composite
    def case(draw: Any) -> dict:
        cfgd = draw(history.st_history_config(max_groups=3, max_params=3, max_numel=120,
                                              solvers=("eigen", "eigen_stab"), kinds=("shampoo", "shampoo", "soap")))
        if len(cfgd["groups"]) < 2:
            g2 = draw(history.st_history_config(max_groups=1, max_params=2, max_numel=120, solvers=("eigen",)))["groups"][0]
            g2["inherit"] = sorted(draw(st.sets(st.sampled_from(["beta3", "start", "lr", "betas", "graft"]), max_size=3)))
            g2["cfg"]["gscale"] = cfgd["groups"][0]["cfg"]["gscale"]
            cfgd["groups"].append(g2)
        for g_ in cfgd["groups"]:
            g_.pop("frozen", None)  # this stream assigns gradients itself, per group
        n = sum(len(g["shapes"]) for g in cfgd["groups"])
        steps = draw(st.lists(gen.st_step(n, cfgd["groups"][0]["cfg"]["gscale"], edits=False), min_size=2, max_size=8))
        return {"config": cfgd, "steps": steps}

    return case()


def groups_oracle(case: dict) -> Outcome:
    out = Outcome()
    config = case["config"]
    A = Runner(config, check_reference=False)
    if A.failed_construct:
        out.failures.append(A.failed_construct)
        return out
    # independent optimizers, one per group, built from the *effective* group hyperparameters
    Bparams, Bopts = [], []
    for gi, g in enumerate(config["groups"]):
        ps = [torch.nn.Parameter(p.detach().clone()) for p in A.params[gi]]
        eff = dict(A.eff[gi])
        ok, opt = call_sut(out, "C01.d.construct", f"independent optimizer for group {gi}", lambda: gen.build_optimizer(ps, eff))
        if not ok:
            return out
        Bparams.append(ps)
        Bopts.append(opt)
    differing = any(A.eff[gi] != A.eff[0] for gi in range(1, len(A.eff)))
    for si, s in enumerate(case["steps"]):
        idx = 0
        for gi, g in enumerate(config["groups"]):
            n = len(g["shapes"])
            sub = dict(s)
            sub["mask"] = s["mask"][idx: idx + n]
            sub["gseed"] = s["gseed"] + 1000 * gi
            idx += n
            grads = gen.step_grads(g["shapes"], sub, A.pdts[gi])
            for pa, pb, gr in zip(A.params[gi], Bparams[gi], grads):
                pa.grad = None if gr is None else gr.clone()
                pb.grad = None if gr is None else gr.clone()
        ra = _try(A.opt.step)
        rbs = [_try(o.step) for o in Bopts]
        if ra is not None or any(r is not None for r in rbs):
            # both formulations must fail alike (e.g. an iterative solver giving up); otherwise it is a difference
            if (ra is None) != all(r is None for r in rbs):
                out.fail("C01.d.groups_independent", "multi-group optimizer and independent optimizers differ in raising", f"step {si}: multi={ra!r} independent={rbs!r}")
            break
        for gi in range(len(config["groups"])):
            for pi, (pa, pb) in enumerate(zip(A.params[gi], Bparams[gi])):
                if not rm.bitwise_equal(pa.detach(), pb.detach()):
                    out.fail("C01.d.groups_independent", "parameter differs between multi-group and independent optimizers",
                             f"step {si} group {gi} param {pi} maxdiff {(pa.detach().double() - pb.detach().double()).abs().max().item():.3e}")
                    return out
                sa, sb = rm.clone_walk(A.opt.state[pa]), rm.clone_walk(Bopts[gi].state[pb])
                if set(sa) != set(sb):
                    out.fail("C01.d.groups_independent", "state keys differ between multi-group and independent optimizers", f"step {si} group {gi} param {pi}")
                    return out
                for k in sa:
                    if not rm.bitwise_equal(sa[k], sb[k]):
                        out.fail("C01.d.groups_independent", f"state {k[-2] if len(k) > 1 else k[-1]} differs between multi-group and independent optimizers",
                                 f"step {si} group {gi} param {pi} path {k}")
                        return out
            out.sub_evaluations += 1
    out.nontrivial = differing and len(case["steps"]) >= 2
    out.classes.append(f"groups{len(config['groups'])}")
    for g in config["groups"][1:]:
        for k in g.get("inherit", []):
            out.classes.append(f"inherit_{k}")
    return out


def _try(fn):
    try:
        fn()
        return None
    except Exception as e:  # noqa: BLE001
        return f"{type(e).__name__}: {str(e)[:80]}"


def config_strategy_long():
    return history.st_history_config(max_groups=1, max_params=2, max_numel=24, kinds=("shampoo", "shampoo", "soap"), solvers=("eigen", "eigen_stab"))


def step_strategy_long(runner: Runner):
    return history.st_history_step(runner, force_any=False)


# --------------------------------------------------------------------------- late start: start_preconditioning_step beyond a few hundred steps
def late_start_strategy():
    """Tiny models whose preconditioning starts only after 257-1100 steps (a long grafted warm-up, as in the README's examples): the warm-up, the first
    root computation exactly at the start step and the following refreshes are all checked step by step."""
    from hypothesis import strategies as st

    @st.composite
    def case(draw: Any) -> dict:
        c = draw(history.st_history_config(max_groups=1, max_params=2, max_numel=8, solvers=("eigen",), kinds=("shampoo", "shampoo", "soap"),
                                           dtypes=(("f32", "f32"), ("f64", "f64"), ("f32", "f64")), mixed_dtypes=False, lr_tensor=False))
        c.pop("gbias", None)
        cfg = c["groups"][0]["cfg"]
        cfg["gscale"] = 1.0
        cfg["lr"] = 0.0009765625
        cfg["epsilon"] = max(cfg["epsilon"], 1e-8)
        cfg["freq"] = draw(st.sampled_from([1, 7, 50, 64]))
        cfg["start"] = draw(st.sampled_from([257, 258, 300, 512, 1030]))
        if cfg["graft"] is None:
            cfg["graft"] = {"type": "sgd"}
        return {"config": c, "N": cfg["start"] + draw(st.sampled_from([3, 60, 130])), "seed": draw(st.integers(0, 10**5)),
                "absent_every": draw(st.sampled_from([0, 0, 5, 13]))}

    return case()


def late_start_oracle(case: dict) -> Outcome:
    R = Runner(case["config"])
    if R.failed_construct:
        R.out.failures.append(R.failed_construct)
        return R.out
    n = sum(len(g["shapes"]) for g in R.groups)
    for i in range(case["N"]):
        mask = [True] * n
        if case["absent_every"] and i % case["absent_every"] == case["absent_every"] - 1:
            mask = [False] * n  # an all-absent step: the group's counter must not advance
        fails = R.step({"mask": mask, "gseed": case["seed"] + i, "gkind": "gauss", "gscale": 1.0})
        if fails:
            R.out.failures.extend(fails)
            break
        if R.dead:
            break
    out = R.finish()
    out.nontrivial = R.stats["refresh_steps"] >= 1 and R.t[0] > 256
    out.classes.append("start_step_beyond_256")
    out.sub_evaluations = R.nsteps
    return out


STREAMS = {
    "history": Stream("history", machine=(config_strategy, step_strategy, Runner), quick=1600, thorough=12000, shards_quick=16, shards_thorough=16,
                      max_steps=12, max_steps_thorough=30),
    "long_history": Stream("long_history", machine=(config_strategy_long, step_strategy_long, Runner), quick=96, thorough=800, shards_quick=16, shards_thorough=16,
                           max_steps=70, max_steps_thorough=150),
    "late_start": Stream("late_start", oracle=late_start_oracle, strategy=late_start_strategy, quick=24, thorough=240, shards_quick=8, shards_thorough=16),
    "groups": Stream("groups", oracle=groups_oracle, strategy=groups_strategy, quick=400, thorough=3000, shards_quick=8, shards_thorough=16),
}
