"""C03 - eigenvalue-corrected Shampoo (SOAP) is Adam run in a valid factor eigenbasis.

Hypothesis state machine over a live optimizer built with EigenvalueCorrectedShampooPreconditionerConfig (eigh or QR),
every parameter/factor dtype pairing.  After every step: (a) eigenbases bitwise unchanged except on refresh steps for
blocks with a gradient; (b) every refreshed basis is orthonormal and either diagonalises the stored factor matrix (eigh,
or QR from a zero estimate) or is the orthogonal-iteration update of the previous stored basis up to column signs (QR);
(c) corrected eigenvalues and the parameter update follow the one-step-ahead SOAP reference: squared rotated gradient
accumulated every step, direction = rot^-1( rot(filtered grad) / (v / bias_correction + epsilon)^(1/root) ), original
coordinates before any basis exists, ignored dimensions never rotated.
"""
from __future__ import annotations

from .. import history, refmodel as rm
from ..core import Stream

LEVEL = "exploration"
RULE = (
    "case = SOAP configuration (eigh or QR with 1-5 iterations / tolerance, dtype pairing, beta2<1 or =1, epsilon, override, "
    "ignored dims, grafting on/off, momentum, weight decay) x 1-4 parameter shapes of order 0-4 x generated step sequence with "
    "absent gradients and rank-deficient gradient recipes. Non-trivial = at least one refresh that stores a non-identity basis "
    "(factor not diagonal, size > 1) and at least one later step that uses it stale; class real_qr_refresh = the history contains "
    "a QR refresh from a non-zero previous basis; class kept_previous_basis_after_injected_failure = an injected torch.linalg.qr failure "
    "(k-th call of a step raises) fired and the failed factor kept its previous basis. Distinct = canonical JSON of the history."
)
BOUNDS = "orders 0-4, numel <= 300, <= 4 parameters per group, <= 2 groups, <= 12 / 30 steps, QR max_iterations <= 5"
TOLERANCES = (
    f"orthonormality ||Q^T Q - I||_F <= {rm.K_TOL}*4*n*u; off-diagonal mass <= {rm.K_TOL}*4*n*u*||F||; QR update: deviation from the float64 "
    "orthogonal iteration (any k <= max_iterations admissible) <= K*16*n*u*prod cond(F Q_j), only when that bound < 0.05 for every k; "
    "recurrences as in C01"
)
ASSUMPTIONS = [
    "vf/refmodel.py SOAP reading of the docstring (refresh first, then accumulate the squared gradient in the new basis)",
    "QR with a bfloat16 factor dtype is not generated: torch.linalg.qr has no bfloat16 kernel, every refresh would be a tolerated failure",
]
NONTRIVIAL_FLOOR = 20


class Runner(history.OptRunner):
    PREFIX = "C03"

    def nontrivial_rule(self) -> bool:
        return self.stats["nonidentity_refresh"] >= 1 and self.stats["stale_after_nonidentity"] >= 1


def config_strategy():
    return history.st_history_config(max_groups=2, max_params=4, kinds=("soap",), methods=("eigh", "qr", "qr"))


def step_strategy(runner: Runner):
    base = history.st_history_step(runner)
    if not any(h["precond"].get("method") == "qr" for h in runner.hp):
        return base
    from hypothesis import strategies as st

    # about every sixth step of a QR history the k-th torch.linalg.qr call of the step raises (a refresh that fails part-way, possibly in a later
    # orthogonal iteration): the failed factor must keep its previous basis bitwise, every other factor must still be a valid update
    def add(s: dict, k: int) -> dict:
        if k:
            s = dict(s)
            s["qr_fault"] = k
        return s

    return st.builds(add, base, st.sampled_from([0] * 10 + [1, 2, 2, 3, 4, 6]))


STREAMS = {
    "history": Stream("history", machine=(config_strategy, step_strategy, Runner), quick=1200, thorough=10000, shards_quick=16, shards_thorough=16,
                      max_steps=12, max_steps_thorough=30),
}
