"""C05 - blocks tile each parameter exactly and blocking does not change the math.

Streams
  structure_grid / structure : Distributor(group).local_blocked_params on an arange-filled parameter: every block is a view of the
      parameter's storage, the blocks cover each element exactly once in row-major order, no block dimension exceeds
      max_preconditioner_dim, merged dims satisfy the merge rule (as a predicate), gradient blocks cover the same index sets in the same order
      (also with absent gradients).  The grid enumerates all shapes with dims <= 5, order <= 3 (4 in thorough) and thresholds 1..7.
  metamorphic : optimizer A on tensors with blocking vs optimizer B on contiguous clones of the reference blocks as separate parameters
      (threshold large, merge off), same history => same values per block within 16*u*sum||delta w|| .
"""
from __future__ import annotations

import itertools
import math
from typing import Any, Iterator

import torch

from .. import gen, history, refmodel as rm
from ..core import Outcome, Stream, call_sut

LEVEL = "exploration"
RULE = (
    "structure: case = (list of 1-3 shapes of order 0-4 incl. size-1 dims, max_preconditioner_dim 1..12 or >= numel, merge on/off, gradient-"
    "presence mask); grid enumerates every shape with dims <= 5 and order <= 3 x thresholds 1..7 x merge on/off completely. Non-trivial = some "
    "parameter has >= 2 blocks or a merge changed its shape. metamorphic: case = configuration x shapes x history; non-trivial likewise and >= 2 steps. "
    "Distinct = canonical JSON."
)
BOUNDS = "orders 0-4, dims <= 12 (random) / <= 5 (grid) / <= 300 (large), thresholds 1..12 and 1024; structure_many: 1024-2088 blocks along one axis (thorough: up to 65576); metamorphic histories <= 6 steps, numel <= 200"
TOLERANCES = "metamorphic: ||w_blocked - w_presplit||_F <= 16*eps(dtype)*(sum_t ||delta w_t||_F + ||w||_F) per block (a strided and a contiguous reduction may associate differently)"
ASSUMPTIONS = ["untyped_storage().data_ptr() identifies aliasing"]
NONTRIVIAL_FLOOR = 50


def _distributor(params: list, mpd: int, merge: bool):
    from distributed_shampoo.shampoo_types import MAX_PRECONDITIONER_DIM, PARAMS, USE_MERGE_DIMS
    from distributed_shampoo.utils.shampoo_distributor import Distributor

    return Distributor({PARAMS: params, MAX_PRECONDITIONER_DIM: mpd, USE_MERGE_DIMS: merge})


def merge_rule_ok(shape: tuple, md: tuple, thr: int, merge: bool) -> str | None:
    """The merge rule as a predicate (not a re-implementation of the greedy loop)."""
    if not merge:
        return None if tuple(md) == tuple(shape) else "merge off but dims changed"
    sq = [d for d in shape if d != 1]
    if math.prod(md) != math.prod(shape):
        return "product not preserved"
    if not sq:
        return None if tuple(md) == (1,) else "all-ones shape must become (1,)"
    if any(d == 1 for d in md):
        return "size-1 dimension kept"
    # md must be products of consecutive runs of sq
    i = 0
    runs = []
    for d in md:
        p, j = 1, i
        while j < len(sq) and p < d:
            p *= sq[j]
            j += 1
        if p != d or j == i:
            return "a merged dim is not a product of adjacent squeezed dims"
        runs.append((i, j))
        i = j
    if i != len(sq):
        return "dims lost"
    for (a, b), d in zip(runs, md):
        if b - a >= 2 and d > thr:
            return "a product of >= 2 dims exceeds the threshold"
    for (a, b), d, nxt in zip(runs, md, runs[1:]):
        if d * sq[nxt[0]] <= thr:
            return "not maximal: the run could absorb the next dimension"
    return None


def oracle_structure(case: dict) -> Outcome:
    out = Outcome()
    shapes = [tuple(s) for s in case["shapes"]]
    thr, merge = case["mpd"], case["merge"]
    mask = case.get("mask") or [True] * len(shapes)
    params = []
    base = 0
    playout = case.get("playout") or [None] * len(shapes)
    for pi, s in enumerate(shapes):
        n = math.prod(s)
        t = torch.arange(base, base + n, dtype=torch.float64).reshape(s)
        perm = playout[pi] if pi < len(playout) else None
        if perm and len(perm) == len(s) and len(s) >= 2:
            # same values and shape, non-row-major memory layout (channels_last / transposed weights); only where param.view(merged dims) is legal for
            # such a tensor: merging is a no-op, or the fused / dropped dimensions happen to be stride-compatible (H and W of a channels_last kernel)
            inv = [perm.index(i) for i in range(len(perm))]
            t2 = t.permute(*perm).contiguous().permute(*inv)
            md_ = tuple(rm.merge_dims(s, thr, True)) if merge else tuple(s)
            try:
                t2.view(md_)
                legal = True
            except RuntimeError:
                legal = False
            if legal:
                t = t2
                if not t.is_contiguous():
                    out.classes.append("non_row_major_parameter")
                    if md_ != tuple(s):
                        out.classes.append("non_row_major_parameter_with_shape_changing_merge")
        params.append(torch.nn.Parameter(t))
        base += n
    ok, dist = call_sut(out, "C05.construct", "Distributor(param_group)", lambda: _distributor(params, thr, merge))
    if not ok:
        return out
    blocks = list(dist.local_blocked_params)
    # reference enumeration
    want: list[torch.Tensor] = []
    nontrivial = False
    for p, s in zip(params, shapes):
        md, sls = rm.block_slices(s, thr, merge)
        r = merge_rule_ok(s, md, thr, merge)
        if r is not None:
            raise AssertionError(f"harness reference violates the merge predicate: {r} {s} {md} {thr}")
        if len(sls) >= 2 or tuple(md) != tuple(s):
            nontrivial = True
        for sl in sls:
            want.append(p.detach().view(md)[sl])
    out.nontrivial = nontrivial
    if len(blocks) != len(want):
        out.fail("C05.iii.enumeration", "number of blocks differs from the documented blocking", f"shapes {shapes} thr {thr} merge {merge}: {len(blocks)} vs {len(want)}")
        return out
    seen = torch.zeros(base, dtype=torch.int64)
    owner = {}
    for p in params:
        owner[p.untyped_storage().data_ptr()] = p
    for i, (b, w) in enumerate(zip(blocks, want)):
        if b.requires_grad:
            out.fail("C05.i.view", "a block requires grad")
        if b.untyped_storage().data_ptr() not in owner:
            out.fail("C05.i.view", "a block does not share its parameter's storage", f"block {i}")
            return out
        if any(d > thr for d in b.shape):
            out.fail("C05.iv.size_limit", "a block dimension exceeds max_preconditioner_dim", f"block {i} shape {list(b.shape)} thr {thr}")
        if tuple(b.shape) != tuple(w.shape) or not torch.equal(b, w):
            out.fail("C05.iii.enumeration", "a block differs from the documented slice of the merged view (row-major order)", f"block {i}: shape {list(b.shape)} vs {list(w.shape)}")
            return out
        if b.storage_offset() != w.storage_offset() or b.stride() != w.stride():
            out.fail("C05.i.view", "a block is not the expected view (offset/stride)", f"block {i}")
        seen.index_add_(0, b.reshape(-1).long(), torch.ones(b.numel(), dtype=torch.int64))
    if base and not bool((seen == 1).all()):
        out.fail("C05.ii.cover_once", "blocks do not cover every element exactly once", f"min {int(seen.min())} max {int(seen.max())}")
    # merged dims as reported by the distributor obey the predicate
    mdl = getattr(dist, "_global_merged_dims_list", None)
    if mdl is not None:
        for s, md in zip(shapes, mdl):
            r = merge_rule_ok(s, tuple(md), thr, merge)
            if r is not None:
                out.fail("C05.v.merge_rule", f"merged dims violate the merge rule: {r}", f"shape {s} merged {tuple(md)} thr {thr}")
    # writing through a block reaches the parameter
    if blocks and blocks[0].numel():
        idx0 = (0,) * blocks[0].dim()
        v = blocks[0][idx0].item()
        with torch.no_grad():
            blocks[0][idx0] = -5.0
        if params[0].detach().reshape(-1)[int(v) - 0].item() != -5.0:
            out.fail("C05.i.view", "writing to a block does not modify the parameter")
        with torch.no_grad():
            blocks[0][idx0] = v
    # gradient blocks: same index sets, same order, only for parameters with a gradient
    strided = False
    for pi, (p, m) in enumerate(zip(params, mask)):
        if not m:
            p.grad = None
            continue
        g = p.detach().clone()
        perm = (case.get("glayout") or [None] * len(params))[pi]
        md_i = rm.block_slices(shapes[pi], thr, merge)[0]
        if perm and len(perm) == g.dim() and g.dim() >= 2 and tuple(md_i) == tuple(shapes[pi]):
            # same values and shape, different memory layout (a user- or hook-assigned gradient need not be row-major);
            # only where grad.view(merged dims) is still legal, i.e. where the shape is not changed by merging
            inv = [perm.index(i) for i in range(len(perm))]
            g = g.permute(*perm).contiguous().permute(*inv)
            strided = strided or not g.is_contiguous()
        p.grad = g
    if strided:
        out.classes.append("non_row_major_gradient")
    ok, gb = call_sut(out, "C05.vi.grad_blocks", "merge_and_block_gradients", lambda: dist.merge_and_block_gradients())
    if ok:
        want_g = []
        sel = []
        for p, s, m in zip(params, shapes, mask):
            md, sls = rm.block_slices(s, thr, merge)
            sel.extend([m] * len(sls))
            if m:
                want_g.extend(p.grad.view(md)[sl] for sl in sls)
        if len(gb) != len(want_g) or any(tuple(a.shape) != tuple(b.shape) or not torch.equal(a, b) for a, b in zip(gb, want_g)):
            out.fail("C05.vi.grad_blocks", "gradient blocks do not cover the same index sets, in the same order, as the parameter blocks with a gradient", f"shapes {shapes} mask {mask}")
        if tuple(dist.local_grad_selector) != tuple(sel):
            out.fail("C05.vi.grad_selector", "local_grad_selector does not mark exactly the blocks of parameters with a gradient", f"{dist.local_grad_selector} vs {sel}")
        mp = list(dist.local_masked_blocked_params)
        want_mp = [w for w, s_ in zip(want, sel) if s_]
        if len(mp) != len(want_mp) or any(a.data_ptr() != b.data_ptr() or a.shape != b.shape for a, b in zip(mp, want_mp)):
            out.fail("C05.vi.masked_params", "masked parameter blocks are not the parameter blocks of parameters with a gradient")
    cl = out.classes
    cl.append(f"maxorder{max(len(s) for s in shapes)}")
    if not all(mask):
        cl.append("absent_gradient")
    if any(1 in s for s in shapes):
        cl.append("size1_dim")
    return out


def enumerate_grid(tier: str, i: int, n: int) -> Iterator[dict]:
    idx = 0
    max_order = 3 if tier == "quick" else 4
    for order in range(0, max_order + 1):
        for shape in itertools.product(range(1, 6 if order <= 3 else 4), repeat=order):
            for thr in range(1, 8):
                for merge in (False, True):
                    idx += 1
                    if idx % n == i:
                        yield {"shapes": [list(shape)], "mpd": thr, "merge": merge}


def strategy_structure():
    from hypothesis import strategies as st

    @st.composite
    def case(draw: Any) -> dict:
        mpd = draw(st.one_of(st.integers(1, 12), st.just(1024)))
        k = draw(st.integers(1, 3))
        shapes = [draw(gen.st_shape(mpd, max_order=4, max_numel=2000)) for _ in range(k)]
        glayout = [draw(st.one_of(st.none(), st.permutations(list(range(len(sh)))))) if len(sh) >= 2 else None for sh in shapes]
        playout = [draw(st.one_of(st.none(), st.none(), st.permutations(list(range(len(sh)))))) if len(sh) >= 2 else None for sh in shapes]
        return {"shapes": shapes, "mpd": mpd, "merge": draw(st.booleans()), "mask": [draw(st.booleans()) for _ in range(k)], "glayout": glayout, "playout": playout}

    return case()


def strategy_structure_large():
    """Sizes a typical model has (dims up to a few hundred, thresholds up to 128 and the default 1024); the structural oracle is cheap."""
    from hypothesis import strategies as st

    @st.composite
    def case(draw: Any) -> dict:
        mpd = draw(st.sampled_from([7, 32, 64, 100, 128, 256, 1024]))
        order = draw(st.integers(1, 4))
        shape = []
        prod = 1
        for _ in range(order):
            d = draw(st.one_of(st.sampled_from([1, 2, 3, mpd - 1, mpd, mpd + 1, 2 * mpd, 2 * mpd + 1, 3 * mpd - 1]), st.integers(1, 300)))
            d = max(1, min(d, 300))
            while prod * d > 200000 and d > 1:
                d = max(1, d // 2)
            shape.append(d)
            prod *= d
        return {"shapes": [shape], "mpd": mpd, "merge": draw(st.booleans()), "mask": [True]}

    return case()


def _strategy_structure_many(counts: list):
    """One axis is cut into more than a thousand blocks (embedding-table-like parameters with a small max_preconditioner_dim)."""
    from hypothesis import strategies as st

    @st.composite
    def case(draw: Any) -> dict:
        mpd = draw(st.sampled_from([1, 2, 3, 4, 4]))
        nb = draw(st.sampled_from(counts)) + draw(st.integers(0, 40))
        long_dim = mpd * nb + draw(st.integers(0, mpd - 1))
        others = [draw(st.sampled_from([1, 2, 3, 5, 6, mpd, mpd + 1])) for _ in range(draw(st.integers(0, 2)))]
        pos = draw(st.integers(0, len(others)))
        shape = others[:pos] + [long_dim] + others[pos:]
        return {"shapes": [shape], "mpd": mpd, "merge": draw(st.booleans()), "mask": [True]}

    return case()


# --------------------------------------------------------------------------- metamorphic
def strategy_meta():
    from hypothesis import strategies as st

    @st.composite
    def case(draw: Any) -> dict:
        cfg = draw(gen.st_config(dtypes=(("f32", "f32"), ("f64", "f64"), ("f64", "f32"), ("f32", "f64")), solvers=("eigen", "eigen_stab"),
                                 allow_ignored=True, kinds=("shampoo", "shampoo", "soap")))
        k = draw(st.integers(1, 3))
        shapes = [draw(gen.st_shape(cfg["mpd"], max_order=4, max_numel=200)) for _ in range(k)]
        if cfg["precond"]["kind"] == "shampoo" and not cfg["precond"].get("ignored") and draw(st.sampled_from([False] * 5 + [True])):
            # forced class: a per-order override list together with merging that lowers the order (size-1 or small dimensions are fused), so that
            # the block's order differs from the tensor's and the list is as long as the tensor's order
            cfg["merge"] = True
            cfg["mpd"] = draw(st.sampled_from([8, 12, 16]))
            shapes = [draw(st.sampled_from([[1, 7], [3, 4, 20], [2, 2, 2, 9], [5, 1, 3], [1, 1, 6], [2, 3, 30], [2, 2, 40]])) for _ in range(k)]
            L = max(len(sh) for sh in shapes)
            cfg["override"] = [draw(st.sampled_from([1, 2, 3, 4, 6])) for _ in range(draw(st.integers(1, L)))]
            cfg["start"] = min(cfg["start"], cfg["freq"] + 1) if cfg["start"] != -1 else -1
        T = draw(st.integers(2, 6))
        steps = draw(st.lists(gen.st_step(k, cfg["gscale"], edits=False), min_size=T, max_size=T))
        return {"cfg": cfg, "shapes": shapes, "steps": steps, "pseed": draw(st.integers(0, 10**5))}

    return case()


def oracle_meta(case: dict) -> Outcome:
    out = Outcome()
    cfg, shapes = case["cfg"], case["shapes"]
    eff = gen.effective(cfg)
    dt = gen.DT[cfg["pdtype"]]
    pa = gen.make_params(shapes, case["pseed"], dt, cfg["gscale"])
    layout = [rm.block_slices(s, eff["mpd"], eff["merge"]) for s in shapes]
    pb = [torch.nn.Parameter(p.detach().view(md)[sl].clone().contiguous()) for p, (md, sls) in zip(pa, layout) for sl in sls]
    cfgB = dict(cfg)
    cfgB["merge"] = False
    cfgB["mpd"] = 10**6
    # ignored dims / override lists index the *block's* dims, which are the same on both sides (blocks keep the merged order)
    ok, A = call_sut(out, "C05.meta.construct", "blocked optimizer", lambda: gen.build_optimizer(pa, cfg))
    if not ok:
        return out
    ok, B = call_sut(out, "C05.meta.construct", "pre-split optimizer", lambda: gen.build_optimizer(pb, cfgB))
    if not ok:
        return out
    nb = len(pb)
    cum = [0.0] * nb
    amp = 0.0
    eps = torch.finfo(dt).eps
    out.nontrivial = (any(len(sls) >= 2 or tuple(md) != tuple(s) for (md, sls), s in zip(layout, shapes))) and len(case["steps"]) >= 2
    for si, s in enumerate(case["steps"]):
        grads = gen.step_grads(shapes, s, dt)
        for p, g in zip(pa, grads):
            p.grad = None if g is None else g.clone()
        j = 0
        for (md, sls), g in zip(layout, grads):
            for sl in sls:
                pb[j].grad = None if g is None else g.view(md)[sl].clone().contiguous()
                j += 1
        prevb = [p.detach().clone() for p in pb]
        ea, eb = _try(A.step), _try(B.step)
        if ea is not None or eb is not None:
            if (ea is None) != (eb is None):
                out.fail("C05.meta.raises", "blocked and pre-split optimizers differ in raising", f"step {si}: blocked={ea} presplit={eb}")
            break
        amp = max(amp, _amplification(A, pa, cfg))
        if cfg["precond"].get("method") == "qr":
            # orthogonal iteration starts from the previous basis: what an earlier refresh left is amplified again by every later one
            amp = amp * (1.0 + 1.0 / (si + 1)) if si else amp
        j = 0
        for pi, (md, sls) in enumerate(layout):
            for sl in sls:
                a = pa[pi].detach().view(md)[sl].double()
                b = pb[j].detach().double()
                cum[j] += float((pb[j].detach().double() - prevb[j].double()).norm())
                dev = float((a - b).norm())
                scale = cum[j] + float(b.norm())
                if not math.isfinite(dev) or not math.isfinite(scale):
                    out.classes.append("overflow_domain")
                    return out
                bound = 16 * eps * scale * (1.0 + amp)
                if bound > 0.05 * scale:
                    out.classes.append("uninformative_ill_conditioned")
                    return out
                out.metric("dev_over_eps_scale", dev / (eps * scale) if scale > 0 else 0.0)
                out.sub_evaluations += 1
                if dev > bound:
                    out.fail("C05.meta.values", "blocked tensor and pre-split blocks diverge", f"step {si} param {pi} block {j}: dev {dev:.3e} > {bound:.3e} (dtype {cfg['pdtype']})", dev, bound)
                    return out
                j += 1
    out.classes.append(f"precond_{cfg['precond']['kind']}")
    return out


def _amplification(opt: Any, params: list, cfg: dict) -> float:
    """How strongly a one-ulp difference in a factor matrix (strided vs contiguous reduction) may be amplified by the amortized computation:
    condition number of F + eps*I for inverse roots, ||F|| / (smallest eigenvalue gap) for eigenbases."""
    soap = cfg["precond"]["kind"] == "soap"
    worst = 0.0
    for p in params:
        for k, bs in opt.state[p].items():
            if not (isinstance(k, str) and k.startswith("block_")) or "shampoo" not in bs:
                continue
            sh = bs["shampoo"]
            if soap:
                # Adam in rotated coordinates divides by sqrt(v) + eps: a rotated component that is zero up to round-off (the off-diagonal of
                # Q0^T G Q1 at the first step is exactly zero in exact arithmetic) is normalised to +-1 with a sign decided by rounding
                v = getattr(sh, "corrected_eigenvalues", None)
                if v is not None and v.numel() and any(bool(Q.any()) for Q in sh.factor_matrices_eigenvectors):
                    vv = v.double().abs().sqrt()
                    worst = max(worst, float(vv.max()) / (float(vv.min()) + float(cfg["epsilon"])) if float(vv.max()) > 0 else 0.0)
            used = sh.factor_matrices_eigenvectors if soap else sh.inv_factor_matrices
            for F, X in zip(sh.factor_matrices, used):
                if not bool(X.any()):
                    continue  # not refreshed yet: the factor matrix has not influenced any update
                F = F.double()
                if F.numel() <= 1:
                    continue
                L = torch.linalg.eigvalsh((F + F.T) / 2)
                lmax = float(L.abs().max())
                if lmax == 0.0:
                    continue
                if soap:
                    gaps = (L[1:] - L[:-1]).abs()
                    g = float(gaps.min())
                    worst = max(worst, lmax / g if g > 0 else float("inf"))
                    if cfg["precond"].get("method") == "qr":
                        # orthogonal iteration Q <- qr(F Q): the trailing columns are determined up to u * cond(F); for a (nearly) rank-deficient
                        # factor they are numerically arbitrary inside the (near) null space - a valid basis either way (C03), not one expected answer
                        lmin = float(L.abs().min())
                        its = max(1, int(cfg["precond"].get("max_it", 1)))  # every iteration re-amplifies what the previous one left
                        worst = max(worst, its * lmax / lmin if lmin > 0 else float("inf"))
                else:
                    e = cfg["epsilon"]
                    worst = max(worst, (lmax + e) / (max(float(L.min()), 0.0) + e))
    return worst


def _try(fn: Any) -> str | None:
    try:
        fn()
        return None
    except Exception as e:  # noqa: BLE001
        return f"{type(e).__name__}: {str(e)[:100]}"


_ = history

STREAMS = {
    "structure_grid": Stream("structure_grid", oracle=oracle_structure, enumerate=enumerate_grid, exhaustive=True, shards_quick=8, shards_thorough=16),
    "structure": Stream("structure", oracle=oracle_structure, strategy=strategy_structure, quick=6000, thorough=60000, shards_quick=4, shards_thorough=16),
    "structure_large": Stream("structure_large", oracle=oracle_structure, strategy=strategy_structure_large, quick=600, thorough=6000, shards_quick=4, shards_thorough=16),
    "structure_many": Stream("structure_many", oracle=oracle_structure, strategy=lambda: _strategy_structure_many([1024, 1024, 1030, 1100, 2048]), quick=64, thorough=600, shards_quick=16, shards_thorough=16),
    "structure_huge": Stream("structure_huge", oracle=oracle_structure, strategy=lambda: _strategy_structure_many([4096, 8192, 16384, 65536]), quick=0, thorough=48, shards_quick=16, shards_thorough=16),
    "metamorphic": Stream("metamorphic", oracle=oracle_meta, strategy=strategy_meta, quick=1200, thorough=10000, shards_quick=16, shards_thorough=16),
}
