"""C18 - a PT2-compiled step computes the same update as the eager step.

Differential: the same configuration and history run through an optimizer built with ShampooPT2CompileConfig (backends that preserve eager numerics:
"eager" and "aot_eager"; static / dynamic / auto-dynamic shape modes) and through the uncompiled optimizer; parameters and every state tensor must be
bitwise equal after every step.  Guard against vacuity: torch._dynamo's counters must show compiled frames, otherwise the case is reported as
uninformative.  torch._dynamo.reset() at the top of every case.
"""
from __future__ import annotations

from typing import Any

import torch

from .. import gen, history, refmodel as rm
from ..core import Outcome, Stream

LEVEL = "exploration"
RULE = (
    "bitwise comparison for backend eager; 64 ulp x conditioning for aot_eager (AOTAutograd re-rounds decomposed fused ops). "
    "case = (backend eager | aot_eager, shape mode static | dynamic | auto, optimizer configuration covering weight-decay modes, filtering on/off, beta3, bias "
    "correction, every grafting type or none, momentum / Nesterov, Shampoo and SOAP, 1-3 parameter shapes, history of 4-8 steps crossing start_preconditioning_step "
    "with refresh and non-refresh steps, presence-mask changes and lr / weight-decay edits). Non-trivial = dynamo compiled >= 1 frame and the history contains a "
    "presence-mask change or the warm-up -> preconditioned switch. Distinct = canonical JSON."
)
BOUNDS = "float32 parameters, numel <= 60, <= 8 steps; inductor is outside the property's premise (it does not preserve eager numerics)"
ASSUMPTIONS = ["torch._dynamo.utils.counters['frames']['ok'] counts successfully compiled frames"]
NONTRIVIAL_FLOOR = 4


def strategy():
    from hypothesis import strategies as st

    @st.composite
    def case(draw: Any) -> dict:
        cfg = draw(gen.st_config(dtypes=(("f32", "f32"),), solvers=("eigen", "eigen_stab"), kinds=("shampoo", "shampoo", "soap"), max_mpd=4, gscale=1.0))
        cfg["start"] = draw(st.integers(cfg["freq"], cfg["freq"] + 2))
        k = draw(st.integers(1, 3))
        shapes = [draw(gen.st_shape(cfg["mpd"], max_order=3, max_numel=60)) for _ in range(k)]
        T = draw(st.integers(max(4, cfg["start"] + 1), 8))
        steps = draw(st.lists(gen.st_step(k, 1.0, edits=True), min_size=T, max_size=T))
        return {"config": {"groups": [{"cfg": cfg, "shapes": shapes}], "pseed": draw(st.integers(0, 10**5))}, "steps": steps,
                "backend": draw(st.sampled_from(["aot_eager", "aot_eager", "eager"])), "dyn": draw(st.sampled_from(["static", "static", "dynamic", "auto"]))}

    return case()


def oracle(case: dict) -> Outcome:
    import torch._dynamo
    from torch._dynamo.utils import counters

    from distributed_shampoo.shampoo_types import ShampooPT2CompileConfig

    out = Outcome()
    torch._dynamo.reset()
    counters.clear()
    dyn = {"static": False, "dynamic": True, "auto": None}[case["dyn"]]
    pt2 = ShampooPT2CompileConfig(pytorch_compile_backend=case["backend"], enable_shampoo_pt2_dynamic_shape=dyn)
    A = history.OptRunner(case["config"], check_reference=False, extra={"shampoo_pt2_compile_config": pt2})
    B = history.OptRunner(case["config"], check_reference=False)
    if A.failed_construct or B.failed_construct:
        out.failures.append(A.failed_construct or B.failed_construct)
        return out
    mask_change = False
    prev = None
    crossed = False
    eff = A.eff[0]
    amp = 0.0
    tol = 0.0

    def same(x: torch.Tensor, y: torch.Tensor) -> bool:
        """backend "eager" (Dynamo only): bitwise.  "aot_eager": AOTAutograd decomposes fused in-place ops such as add_(x, alpha=c) and lerp_ into separately
        rounded primitives, so single-ulp differences exist on the unchanged tree (corrected eigenvalues: 0x1.c36cacp+7 vs 0x1.c36caep+7); equality is
        asserted up to 64 ulp times the amplification of the amortized computation (conditioning of refreshed factors)."""
        if case["backend"] == "eager" or not x.dtype.is_floating_point:
            return rm.bitwise_equal(x, y)
        if x.shape != y.shape:
            return False
        xd, yd = x.double(), y.double()
        if not bool(torch.isfinite(xd).all() and torch.isfinite(yd).all()):
            return rm.bitwise_equal(x, y)
        return float((xd - yd).norm()) <= tol * float(xd.norm() + yd.norm()) + 1e-30
    for si, s in enumerate(case["steps"]):
        ea = A.raw_step(s)
        eb = B.raw_step(s)
        if ea is not None and eb is None and type(ea).__name__ == "BackendCompilerFailed" and (
                ("share the same storage" in str(ea) and "dynamic" in str(ea)) or (case["dyn"] != "static" and "SymInt" in str(ea))):
            # torch 2.5 AOTAutograd refuses graphs in which several *aliased* inputs (blocks are views of one parameter) are mutated while
            # compiled with dynamic shapes.  The compiler rejects the program before anything is computed: this is a limitation of the
            # toolchain under (auto-)dynamic shapes, not a different update; the case is excluded and counted.  The same holds for the
            # internal "unhashable type: non-nested SymInt" failure of the aot_eager backend after a dynamic-shape recompilation.
            out.classes.append("compiler_rejected_aliased_dynamic_graph")
            out.excluded += 1
            break
        if ea is not None or eb is not None:
            if (ea is None) != (eb is None) or type(ea) is not type(eb):
                out.fail("C18.raises", "compiled and eager optimizers differ in raising", f"step {si + 1}: compiled={ea!r:.300} eager={eb!r:.300}")
            else:
                out.classes.append("both_raise")
            break
        if prev is not None and s["mask"] != prev and any(s["mask"]) and any(prev):
            mask_change = True
        prev = s["mask"]
        if A.t[0] >= eff["start"]:
            crossed = True
        if case["backend"] != "eager":
            from . import c05

            amp = max(amp, c05._amplification(B.opt, B.all_params(), eff))
            tol = 64 * float(torch.finfo(torch.float32).eps) * (1.0 + amp)
            if tol > 0.05:
                out.classes.append("uninformative_ill_conditioned")
                break
        for pi, (pa, pb) in enumerate(zip(A.all_params(), B.all_params())):
            if not same(pa.detach(), pb.detach()):
                out.fail("C18.params", "compiled step leaves different parameters than the eager step",
                         f"step {si + 1} param {pi} max abs diff {(pa.detach().double() - pb.detach().double()).abs().max().item():.3e} backend {case['backend']} mode {case['dyn']}")
                return out
            sa, sb = rm.clone_walk(A.opt.state[pa]), rm.clone_walk(B.opt.state[pb])
            if set(sa) != set(sb):
                out.fail("C18.state", "compiled and eager optimizers hold different state keys", f"step {si + 1} param {pi}")
                return out
            for k in sa:
                if not same(sa[k], sb[k]):
                    out.fail("C18.state", f"compiled step leaves different state ({k[-2] if len(k) > 1 else k[-1]}) than the eager step", f"step {si + 1} param {pi} path {k}")
                    return out
        out.sub_evaluations += 1
    frames = counters["frames"].get("ok", 0)
    out.metric("compiled_frames", float(frames))
    compiled = frames >= 1
    out.nontrivial = compiled and (mask_change or crossed)
    cl = out.classes
    cl += [f"backend_{case['backend']}", f"mode_{case['dyn']}", "compiled" if compiled else "NOT_COMPILED_uninformative"]
    if mask_change:
        cl.append("mask_change")
    if crossed:
        cl.append("crossed_start")
    fin = A.finish()
    cl += [c for c in fin.classes if c.startswith(("graft_", "precond_", "momentum", "wd_", "beta3", "no_bias"))]
    torch._dynamo.reset()
    return out


STREAMS = {
    "compiled_vs_eager": Stream("compiled_vs_eager", oracle=oracle, strategy=strategy, quick=64, thorough=1500, shards_quick=16, shards_thorough=16),
}
