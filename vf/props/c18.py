"""C18 - a PT2-compiled step computes the same update as the eager step.

Differential: the same configuration and history run through an optimizer built with ShampooPT2CompileConfig (backends that preserve eager numerics:
"eager" and "aot_eager"; static / dynamic / auto-dynamic shape modes) and through the uncompiled optimizer; parameters and every state tensor must be
equal after every step (integer state bitwise, floating-point state within 64 ulp x conditioning: torch.compile re-rounds a few fused in-place ops).  Guard against vacuity: torch._dynamo's counters must show compiled frames, otherwise the case is reported as
uninformative.  torch._dynamo.reset() at the top of every case.
"""
from __future__ import annotations

from typing import Any

import torch

from .. import gen, history, refmodel as rm
from ..core import Outcome, Stream

LEVEL = "exploration"
RULE = (
    "64 ulp x conditioning for both backends (Dynamo rewrites add_(alpha=) and AOTAutograd decomposes fused in-place ops: single-ulp differences on the unchanged tree); integer state bitwise. "
    "case = (backend eager | aot_eager, shape mode static | dynamic | auto, optimizer configuration covering weight-decay modes, filtering on/off, beta3, bias "
    "correction, every grafting type or none, momentum / Nesterov, Shampoo and SOAP, 1-3 parameter shapes, history of 4-8 steps crossing start_preconditioning_step "
    "with refresh and non-refresh steps, presence-mask changes and lr / weight-decay edits). Non-trivial = dynamo compiled >= 1 frame and the history contains a "
    "presence-mask change or the warm-up -> preconditioned switch. Distinct = canonical JSON."
)
BOUNDS = "float32 / float64 parameters, numel <= 60, <= 8 steps incl. rollbacks into the live optimizers; inductor is outside the property's premise (it does not preserve eager numerics)"
ASSUMPTIONS = ["torch._dynamo.utils.counters['frames']['ok'] counts successfully compiled frames"]
NONTRIVIAL_FLOOR = 4


def strategy():
    from hypothesis import strategies as st

    @st.composite
    def case(draw: Any) -> dict:
        cfg = draw(gen.st_config(dtypes=(("f32", "f32"), ("f32", "f32"), ("f64", "f64"), ("f64", "f32")), solvers=("eigen", "eigen_stab"), kinds=("shampoo", "shampoo", "soap"), max_mpd=4, gscale=1.0))
        cfg["start"] = draw(st.integers(cfg["freq"], cfg["freq"] + 2))
        k = draw(st.integers(1, 3))
        shapes = [draw(gen.st_shape(cfg["mpd"], max_order=3, max_numel=60)) for _ in range(k)]
        T = draw(st.integers(max(4, cfg["start"] + 1), 8))
        steps = draw(st.lists(gen.st_step(k, 1.0, edits=True), min_size=T, max_size=T))
        if draw(st.sampled_from([False, False, False, True])):
            # forced class: equal-shaped parameters with several blocks each (>= 8 active blocks) whose gradients swap roles from step to step, so that
            # consecutive steps have different active block sets of the same size and the same shapes
            cfg["mpd"], cfg["merge"] = draw(st.sampled_from([1, 1, 2])), False
            k = draw(st.integers(3, 4))
            shapes = [draw(st.sampled_from([[4, 2], [2, 2, 2], [8], [3, 3]]))] * k
            shapes = [list(x) for x in shapes]
            pats = [[True, True, False, False][:k], [True, False, True, False][:k], [False, True, True, False][:k], [True, False, False, True][:k], [True] * k]
            for st_ in steps:
                st_["mask"] = list(draw(st.sampled_from(pats)))
                st_.pop("edits", None)
        if T >= 4 and draw(st.sampled_from([False, True] if cfg["precond"]["kind"] == "soap" else [False, False, True])):
            # a checkpoint is saved after some step and loaded back into both live optimizers later (rollback); see history.checkpoint_op
            # saved before or after the first refresh, loaded at a later step (the loaded state then lies on the other side of the first basis / root
            # computation, or on the same side with different contents)
            a = draw(st.integers(1, T - 2))
            b = draw(st.integers(a + 1, T - 1))
            if draw(st.booleans()):
                a, b = 1, T - 1  # save right after the first step, roll back at the last one
            steps[a] = dict(steps[a], ckpt="save")
            steps[b] = dict(steps[b], ckpt="load")
        return {"config": {"groups": [{"cfg": cfg, "shapes": shapes}], "pseed": draw(st.integers(0, 10**5))}, "steps": steps,
                "backend": draw(st.sampled_from(["aot_eager", "aot_eager", "eager"])), "dyn": draw(st.sampled_from(["static", "static", "dynamic", "auto"]))}

    return case()


def oracle(case: dict) -> Outcome:
    import torch._dynamo
    from torch._dynamo.utils import counters

    from distributed_shampoo.shampoo_types import ShampooPT2CompileConfig

    out = Outcome()
    torch._dynamo.reset()
    counters.clear()
    dyn = {"static": False, "dynamic": True, "auto": None}[case["dyn"]]
    pt2 = ShampooPT2CompileConfig(pytorch_compile_backend=case["backend"], enable_shampoo_pt2_dynamic_shape=dyn)
    A = history.OptRunner(case["config"], check_reference=False, extra={"shampoo_pt2_compile_config": pt2})
    B = history.OptRunner(case["config"], check_reference=False)
    if A.failed_construct or B.failed_construct:
        out.failures.append(A.failed_construct or B.failed_construct)
        return out
    mask_change = False
    prev = None
    crossed = False
    eff = A.eff[0]
    amp = 0.0
    tol = 0.0

    def same(x: torch.Tensor, y: torch.Tensor) -> bool:
        """Neither backend is bitwise: Dynamo itself rewrites `x.add_(y, alpha=c)` into `x.add_(y * c)` (torch/_dynamo/variables/tensor.py), and AOTAutograd
        decomposes further fused in-place ops (lerp_, addcdiv_) into separately rounded primitives, so single-ulp differences exist on the unchanged tree even
        for backend "eager" (SOAP corrected eigenvalues: 0x1.5b7144p-2 vs 0x1.5b7146p-2; reproduced with a three-line torch.compile example without Shampoo).
        Equality is asserted up to 64 ulp times the amplification of the amortized computation (conditioning of refreshed factors); integer tensors bitwise."""
        if not x.dtype.is_floating_point:
            return rm.bitwise_equal(x, y)
        if x.shape != y.shape:
            return False
        xd, yd = x.double(), y.double()
        if not bool(torch.isfinite(xd).all() and torch.isfinite(yd).all()):
            return rm.bitwise_equal(x, y)
        return float((xd - yd).norm()) <= tol * float(xd.norm() + yd.norm()) + 1e-30
    for si, s in enumerate(case["steps"]):
        ea = A.raw_step(s)
        eb = B.raw_step(s)
        if ea is not None and eb is None and type(ea).__name__ == "BackendCompilerFailed" and (
                ("share the same storage" in str(ea) and "dynamic" in str(ea)) or (case["dyn"] != "static" and ("SymInt" in str(ea) or "size_bytes_is_heap_allocated_" in str(ea)))):
            # torch 2.5 AOTAutograd refuses graphs in which several *aliased* inputs (blocks are views of one parameter) are mutated while
            # compiled with dynamic shapes.  The compiler rejects the program before anything is computed: this is a limitation of the
            # toolchain under (auto-)dynamic shapes, not a different update; the case is excluded and counted.  The same holds for the
            # internal "unhashable type: non-nested SymInt" failure of the aot_eager backend after a dynamic-shape recompilation.
            out.classes.append("compiler_rejected_aliased_dynamic_graph")
            out.excluded += 1
            break
        if ea is not None or eb is not None:
            if (ea is None) != (eb is None) or type(ea) is not type(eb):
                out.fail("C18.raises", "compiled and eager optimizers differ in raising", f"step {si + 1}: compiled={ea!r:.300} eager={eb!r:.300}")
            else:
                out.classes.append("both_raise")
            break
        if prev is not None and s["mask"] != prev and any(s["mask"]) and any(prev):
            mask_change = True
        prev = s["mask"]
        if A.t[0] >= eff["start"]:
            crossed = True
        if True:
            from . import c05

            amp = max(amp, c05._amplification(B.opt, B.all_params(), eff))
            # relative to the parameter dtype: the library's float32 scalars (lr, bias corrections) are the same tensors on both sides
            tol = 64 * float(torch.finfo(gen.DT[eff["pdtype"]]).eps) * (1.0 + amp)
            if tol > 0.05:
                out.classes.append("uninformative_ill_conditioned")
                break
        for pi, (pa, pb) in enumerate(zip(A.all_params(), B.all_params())):
            if not same(pa.detach(), pb.detach()):
                out.fail("C18.params", "compiled step leaves different parameters than the eager step",
                         f"step {si + 1} param {pi} max abs diff {(pa.detach().double() - pb.detach().double()).abs().max().item():.3e} backend {case['backend']} mode {case['dyn']}")
                return out
            sa, sb = rm.clone_walk(A.opt.state[pa]), rm.clone_walk(B.opt.state[pb])
            if set(sa) != set(sb):
                out.fail("C18.state", "compiled and eager optimizers hold different state keys", f"step {si + 1} param {pi}")
                return out
            for k in sa:
                if not same(sa[k], sb[k]):
                    out.fail("C18.state", f"compiled step leaves different state ({k[-2] if len(k) > 1 else k[-1]}) than the eager step", f"step {si + 1} param {pi} path {k}")
                    return out
        out.sub_evaluations += 1
    frames = counters["frames"].get("ok", 0)
    out.metric("compiled_frames", float(frames))
    compiled = frames >= 1
    out.nontrivial = compiled and (mask_change or crossed)
    cl = out.classes
    cl += [f"backend_{case['backend']}", f"mode_{case['dyn']}", "compiled" if compiled else "NOT_COMPILED_uninformative"]
    if mask_change:
        cl.append("mask_change")
    if crossed:
        cl.append("crossed_start")
    if any(st_.get("ckpt") == "load" for st_ in case["steps"]):
        cl.append("rollback_into_live_optimizer")
    if A.stats["blocks"] >= 8 and len({tuple(x) for x in A.shapes[0]}) == 1 and len(A.shapes[0]) >= 3:
        cl.append("equal_shaped_role_swaps_8plus_blocks")
    fin = A.finish()
    cl += [c for c in fin.classes if c.startswith(("graft_", "precond_", "momentum", "wd_", "beta3", "no_bias"))]
    torch._dynamo.reset()
    return out


def strategy_ddp():
    from hypothesis import strategies as st

    @st.composite
    def case(draw: Any) -> dict:
        c = draw(strategy())
        c["comm_dtype"] = draw(st.sampled_from(["bf16", "fp16", "default", "bf16"]))
        c["comm_params"] = draw(st.booleans())
        c["dyn"] = "static"
        return c

    return case()


def oracle_ddp(case: dict) -> Outcome:
    """The same differential with the DDP distributor in the loop (single-rank world on the simulator): update_params is part of the compiled group step."""
    import torch._dynamo
    from torch._dynamo.utils import counters

    from distributed_shampoo.shampoo_types import DDPShampooConfig, ShampooPT2CompileConfig

    from .. import dist_common as dc, sim

    out = Outcome()
    res: dict = {}

    def fn(rank: int, world: Any) -> None:
        torch._dynamo.reset()
        counters.clear()
        mk = lambda: DDPShampooConfig(communication_dtype=dc.comm_enum(case["comm_dtype"]), num_trainers_per_group=-1, communicate_params=case["comm_params"])  # noqa: E731
        pt2 = ShampooPT2CompileConfig(pytorch_compile_backend=case["backend"], enable_shampoo_pt2_dynamic_shape=False)
        A = history.OptRunner(case["config"], check_reference=False, extra={"shampoo_pt2_compile_config": pt2, "distributed_config": mk()})
        B = history.OptRunner(case["config"], check_reference=False, extra={"distributed_config": mk()})
        if A.failed_construct or B.failed_construct:
            res["construct"] = A.failed_construct or B.failed_construct
            return
        diffs = []
        for si, s in enumerate(case["steps"]):
            if not any(s["mask"]):
                continue  # a rank without any gradient skips the group consistently; nothing to compare
            ea, eb = A.raw_step(s), B.raw_step(s)
            if ea is not None or eb is not None:
                res["raise"] = (si, repr(ea)[:300], repr(eb)[:300], type(ea).__name__, type(eb).__name__)
                break
            for pi, (pa, pb) in enumerate(zip(A.all_params(), B.all_params())):
                a, b = pa.detach().double(), pb.detach().double()
                dev = float((a - b).norm())
                scale = float(a.norm() + b.norm())
                diffs.append((si, pi, dev, scale))
        res["diffs"] = diffs
        res["frames"] = counters["frames"].get("ok", 0)
        torch._dynamo.reset()

    results, errors, alive, world = sim.run_world(1, fn)
    real = {r: e for r, e in errors.items() if e != "abort"}
    if real:
        out.fail("C18.ddp.raises", "DDP compiled-vs-eager world raised " + list(real.values())[0].split("\n")[0], list(real.values())[0][-1500:])
        return out
    if "construct" in res:
        out.failures.append(res["construct"])
        return out
    if "raise" in res:
        si, ea, eb, ta, tb = res["raise"]
        if ta == "BackendCompilerFailed" and tb == "NoneType" and ("share the same storage" in ea or "SymInt" in ea or "size_bytes_is_heap_allocated_" in ea):
            out.classes.append("compiler_rejected_aliased_dynamic_graph")
            out.excluded += 1
        elif ta != tb:
            out.fail("C18.raises", "compiled and eager optimizers differ in raising", f"step {si + 1}: compiled={ea} eager={eb}")
        return out
    tol = 1e-3  # a stale or skipped update is O(lr * direction); single-ulp aot_eager differences amplified by conditioning stay far below
    for (si, pi, dev, scale) in res.get("diffs", []):
        if dev > tol * scale + 1e-12:
            out.fail("C18.params", "compiled step leaves different parameters than the eager step",
                     f"DDP distributor, communication dtype {case['comm_dtype']}, communicate_params={case['comm_params']}: step {si + 1} param {pi} rel diff {dev / (scale + 1e-300):.3e}")
            return out
    out.nontrivial = res.get("frames", 0) >= 1 and case["comm_dtype"] != "default"
    out.classes += [f"comm_{case['comm_dtype']}", "communicate_params" if case["comm_params"] else "communicate_updates", f"backend_{case['backend']}"]
    return out


STREAMS = {
    "compiled_vs_eager": Stream("compiled_vs_eager", oracle=oracle, strategy=strategy, quick=96, thorough=600, shards_quick=16, shards_thorough=16),
    "ddp_compiled": Stream("ddp_compiled", oracle=oracle_ddp, strategy=strategy_ddp, quick=32, thorough=240, shards_quick=16, shards_thorough=16),
}
