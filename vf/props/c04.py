"""C04 - parameters without a gradient are untouched and never cross-wire state.

Hypothesis state machine over gradient-presence histories on parameter sets with a forced class of equal-shaped
parameters.  Invariants after every step: (a) a parameter whose gradient is absent keeps its value and every tensor reachable
from its optimizer state bit-for-bit (the group step tensor stored under the first parameter excepted); (b) the group step
counter advances iff some parameter of the group has a gradient; (c) every block that has a gradient matches the
one-step-ahead reference computed from *its own* stored buffers (a block updated with another block's filtered gradient,
momentum, factor or accumulator cannot match) - gradients are generic, so buffers of equal-shaped blocks differ.
"""
from __future__ import annotations

from typing import Any

from .. import gen, history
from ..core import Outcome, Stream

LEVEL = "exploration"
RULE = (
    "case = optimizer configuration (Shampoo and SOAP, grafting, momentum, filtering) x 2-6 parameters per group with equal shapes forced "
    "often x a Markov-style gradient-presence history (stay / flip one / random / all-absent / all-present), including momentum "
    "scheduled to zero and back. Non-trivial = the history contains a mask change between two consecutive steps that both have "
    ">= 1 gradient AND a step at which, among >= 2 equal-shaped parameters, some but not all have a gradient. Distinct = canonical JSON."
)
BOUNDS = "history: <= 6 parameters per group, <= 2 groups, numel <= 120, <= 15 / 30 steps; many_blocks: 65-600 blocks or 66-140 parameters per group, <= 8 / 12 steps; marathon: 2-4 tiny parameters, 1003-2051 (thorough: up to 16400) consecutive presence changes, every step checked"
ASSUMPTIONS = ["reference model of C01 (vf/refmodel.py)"]
NONTRIVIAL_FLOOR = 20


class Runner(history.OptRunner):
    PREFIX = "C04"

    def nontrivial_rule(self) -> bool:
        return self.stats["mask_changes"] >= 1 and self.stats["equal_shape_partial_mask"] >= 1


def config_strategy():
    from hypothesis import strategies as st

    @st.composite
    def config(draw: Any) -> dict:
        c = draw(history.st_history_config(max_groups=2, max_params=3, max_numel=120, solvers=("eigen", "eigen", "eigen_stab", "newton"),
                                           kinds=("shampoo", "shampoo", "soap")))
        # force equal-shaped parameters: duplicate a shape 1-3 times inside every group
        for g in c["groups"]:
            k = draw(st.integers(1, 3))
            src = g["shapes"][draw(st.integers(0, len(g["shapes"]) - 1))]
            for _ in range(k):
                at = draw(st.integers(0, len(g["shapes"])))
                g["shapes"].insert(at, list(src))
                if g.get("pdtypes"):
                    g["pdtypes"].insert(at, draw(st.sampled_from(g["pdtypes"])))
        return c

    return config()


def step_strategy(runner: Runner):
    from hypothesis import strategies as st

    n = sum(len(g["shapes"]) for g in runner.groups)
    prev = runner._prev_mask
    gscale = runner.groups[0]["cfg"].get("gscale", 1.0)

    @st.composite
    def step(draw: Any) -> dict:
        s = draw(gen.st_step(n, gscale, edits=True))
        mode = draw(st.sampled_from(["stay", "flip", "flip", "random", "random", "none", "all", "swap", "flip_high"]))
        shapes = [tuple(x) for g in runner.groups for x in g["shapes"]]
        if mode == "stay" and prev is not None:
            mask = list(prev)
        elif mode == "flip" and prev is not None:
            mask = list(prev)
            i = draw(st.integers(0, n - 1))
            mask[i] = not mask[i]
        elif mode == "swap" and prev is not None:
            # two equal-shaped parameters exchange roles: the number (and the shapes) of active blocks stay the same
            mask = list(prev)
            pairs = [(i, j) for i in range(n) for j in range(i + 1, n) if shapes[i] == shapes[j] and mask[i] != mask[j]]
            if pairs:
                i, j = pairs[draw(st.integers(0, len(pairs) - 1))]
                mask[i], mask[j] = mask[j], mask[i]
        elif mode == "flip_high" and prev is not None:
            # a change confined to the last parameters of a group
            mask = list(prev)
            i = n - 1 - draw(st.integers(0, min(n - 1, 3)))
            mask[i] = not mask[i]
        elif mode == "none":
            mask = [False] * n
        elif mode == "all":
            mask = [True] * n
        else:
            mask = [draw(st.booleans()) for _ in range(n)]
        s["mask"] = mask
        return s

    return step()


class ManyBlocksRunner(Runner):
    """Hundreds of blocks per group: only the bitwise untouched-state invariant and the step-counter model are checked (no reference model),
    so that selector / mask bookkeeping is exercised at sizes where per-block reference checking would be too slow."""

    def __init__(self, config: dict):
        super().__init__(config, check_reference=False)

    def nontrivial_rule(self) -> bool:
        return self.stats["mask_changes"] >= 1 and (self.stats["blocks"] > 256 or sum(len(g["shapes"]) for g in self.groups) > 64)

    def finish(self):
        out = super().finish()
        if sum(len(g["shapes"]) for g in self.groups) > 64:
            out.classes.append("more_than_64_parameters_in_group")
        return out


def config_strategy_many():
    from hypothesis import strategies as st

    @st.composite
    def config(draw: Any) -> dict:
        cfg = draw(gen.st_config(dtypes=(("f32", "f32"),), solvers=("eigen",), kinds=("shampoo", "shampoo", "soap"), allow_ignored=False, allow_override=False, gscale=1.0))
        cfg["mpd"] = draw(st.sampled_from([1, 2, 2, 3]))
        cfg["merge"] = False
        cfg["epsilon"] = 1e-3
        layout = draw(st.sampled_from(["one_big", "one_big", "two_big_equal", "many_params", "many_params"]))
        small = draw(st.sampled_from([[2, 2], [2], [3, 2]]))
        if layout == "many_params":
            # more parameter tensors in one group than fit a machine word (66-140 tiny equal-shaped parameters)
            shapes = [list(small) for _ in range(draw(st.sampled_from([66, 70, 100, 130, 140])))]
            cfg["mpd"] = max(cfg["mpd"], 3)
        else:
            big = draw(st.sampled_from([[130, 2], [260, 2], [300], [17, 16], [9, 8, 4], [66, 4], [520]]))
            n_small = draw(st.integers(2, 4))
            shapes = [big] + [list(small) for _ in range(n_small)]
            if layout == "two_big_equal":
                shapes.insert(draw(st.integers(0, len(shapes))), list(big))  # two equal, heavily blocked layers that can swap roles
            elif draw(st.booleans()):
                shapes.insert(draw(st.integers(0, len(shapes))), draw(st.sampled_from([[70, 2], [40, 3], [65]])))
        return {"groups": [{"cfg": cfg, "shapes": shapes}], "pseed": draw(st.integers(0, 10**5))}

    return config()


# --------------------------------------------------------------------------- marathon: > 1000 presence changes, every step checked
MARATHON_N_QUICK = [1003, 1030, 1100, 1290, 2051]
MARATHON_N_THOROUGH = [4100, 4100, 8200, 16400]


def _marathon_strategy(lengths: list):
    from hypothesis import strategies as st

    @st.composite
    def case(draw: Any) -> dict:
        c = draw(history.st_history_config(max_groups=1, max_params=2, max_numel=8, solvers=("eigen",), kinds=("shampoo", "shampoo", "soap"),
                                           dtypes=(("f32", "f32"), ("f64", "f64"), ("f32", "f64")), mixed_dtypes=False, lr_tensor=False))
        c.pop("gbias", None)
        g = c["groups"][0]
        g["cfg"]["gscale"] = 1.0
        g["shapes"] = [list(g["shapes"][0]) for _ in range(draw(st.integers(2, 3)))] + g["shapes"][1:]
        cfg = g["cfg"]
        cfg["lr"] = draw(st.sampled_from([0.0009765625, 0.00048828125]))
        cfg["epsilon"] = max(cfg["epsilon"], 1e-8)
        cfg["freq"] = draw(st.sampled_from([1, 7, 50, 50]))
        cfg["start"] = draw(st.sampled_from([-1, -1, 1500, 300]))
        if cfg["start"] != -1 and cfg["start"] < cfg["freq"]:
            cfg["start"] = cfg["freq"]
        n = len(g["shapes"])
        L = draw(st.integers(2, 4))
        cycle = [[draw(st.booleans()) for _ in range(n)] for _ in range(L)]
        # consecutive masks of the cycle differ, every mask has a gradient, equal-shaped parameters are partially masked
        cycle[0] = [True, False] + cycle[0][2:]
        cycle[1] = [False, True] + cycle[1][2:]
        for i in range(2, L):
            if cycle[i] == cycle[i - 1] or not any(cycle[i]):
                cycle[i] = [not x for x in cycle[i - 1]]
                if not any(cycle[i]):
                    cycle[i][0] = True
        if cycle[-1] == cycle[0]:
            cycle.append([not x for x in cycle[0]])
            if not any(cycle[-1]):
                cycle[-1][-1] = True
        return {"config": c, "cycle": cycle, "N": draw(st.sampled_from(lengths)), "seed": draw(st.integers(0, 10**5)),
                "edit_every": draw(st.sampled_from([0, 0, 97, 333]))}

    return case()


def marathon_oracle(case: dict):
    """More than a thousand consecutive changes of the gradient-presence pattern on a tiny model; every step is checked like in the history stream
    (untouched parameters bitwise, step counter, every present block against the one-step-ahead reference from its own buffers)."""
    R = Runner(case["config"])
    if R.failed_construct:
        R.out.failures.append(R.failed_construct)
        return R.out
    cyc, N = case["cycle"], case["N"]
    for i in range(N):
        s = {"mask": cyc[i % len(cyc)], "gseed": case["seed"] + i, "gkind": "gauss", "gscale": 1.0}
        if case["edit_every"] and i and i % case["edit_every"] == 0:
            s["edits"] = {"lr": [0.0009765625, 0.00048828125, 0.001953125][(i // case["edit_every"]) % 3]}
        fails = R.step(s)
        if fails:
            R.out.failures.extend(fails)
            break
        if R.dead:
            break
    out = R.finish()
    out.nontrivial = R.stats["mask_changes"] >= 1000 and R.stats["equal_shape_partial_mask"] >= 1000
    out.classes.append(f"presence_changes_{'>=4096' if R.stats['mask_changes'] >= 4096 else ('>=2048' if R.stats['mask_changes'] >= 2048 else ('>=1000' if R.stats['mask_changes'] >= 1000 else '<1000'))}")
    out.sub_evaluations = R.nsteps
    return out


STREAMS = {
    "history": Stream("history", machine=(config_strategy, step_strategy, Runner), quick=1200, thorough=10000, shards_quick=16, shards_thorough=16,
                      max_steps=15, max_steps_thorough=30),
    "many_blocks": Stream("many_blocks", machine=(config_strategy_many, step_strategy, ManyBlocksRunner), quick=160, thorough=1200, shards_quick=16, shards_thorough=16,
                          max_steps=8, max_steps_thorough=12),
    "marathon": Stream("marathon", oracle=marathon_oracle, strategy=lambda: _marathon_strategy(MARATHON_N_QUICK), quick=32, thorough=240, shards_quick=8, shards_thorough=16),
    "marathon_long": Stream("marathon_long", oracle=marathon_oracle, strategy=lambda: _marathon_strategy(MARATHON_N_THOROUGH), quick=0, thorough=48, shards_quick=16, shards_thorough=16),
}
