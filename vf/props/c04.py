"""C04 - parameters without a gradient are untouched and never cross-wire state.

Hypothesis state machine over gradient-presence histories on parameter sets with a forced class of equal-shaped
parameters.  Invariants after every step: (a) a parameter whose gradient is absent keeps its value and every tensor reachable
from its optimizer state bit-for-bit (the group step tensor stored under the first parameter excepted); (b) the group step
counter advances iff some parameter of the group has a gradient; (c) every block that has a gradient matches the
one-step-ahead reference computed from *its own* stored buffers (a block updated with another block's filtered gradient,
momentum, factor or accumulator cannot match) - gradients are generic, so buffers of equal-shaped blocks differ.
"""
from __future__ import annotations

from typing import Any

from .. import gen, history
from ..core import Stream

LEVEL = "exploration"
RULE = (
    "case = optimizer configuration (Shampoo and SOAP, grafting, momentum, filtering) x 2-6 parameters per group with equal shapes forced "
    "often x a Markov-style gradient-presence history (stay / flip one / random / all-absent / all-present), including momentum "
    "scheduled to zero and back. Non-trivial = the history contains a mask change between two consecutive steps that both have "
    ">= 1 gradient AND a step at which, among >= 2 equal-shaped parameters, some but not all have a gradient. Distinct = canonical JSON."
)
BOUNDS = "<= 6 parameters per group, <= 2 groups, numel <= 120, <= 15 / 30 steps"
ASSUMPTIONS = ["reference model of C01 (vf/refmodel.py)"]
NONTRIVIAL_FLOOR = 20


class Runner(history.OptRunner):
    PREFIX = "C04"

    def nontrivial_rule(self) -> bool:
        return self.stats["mask_changes"] >= 1 and self.stats["equal_shape_partial_mask"] >= 1


def config_strategy():
    from hypothesis import strategies as st

    @st.composite
    def config(draw: Any) -> dict:
        c = draw(history.st_history_config(max_groups=2, max_params=3, max_numel=120, solvers=("eigen", "eigen", "eigen_stab", "newton"),
                                           kinds=("shampoo", "shampoo", "soap")))
        # force equal-shaped parameters: duplicate a shape 1-3 times inside every group
        for g in c["groups"]:
            k = draw(st.integers(1, 3))
            src = g["shapes"][draw(st.integers(0, len(g["shapes"]) - 1))]
            for _ in range(k):
                g["shapes"].insert(draw(st.integers(0, len(g["shapes"]))), list(src))
        return c

    return config()


def step_strategy(runner: Runner):
    from hypothesis import strategies as st

    n = sum(len(g["shapes"]) for g in runner.groups)
    prev = runner._prev_mask
    gscale = runner.groups[0]["cfg"].get("gscale", 1.0)

    @st.composite
    def step(draw: Any) -> dict:
        s = draw(gen.st_step(n, gscale, edits=True))
        mode = draw(st.sampled_from(["stay", "flip", "flip", "random", "random", "none", "all"]))
        if mode == "stay" and prev is not None:
            mask = list(prev)
        elif mode == "flip" and prev is not None:
            mask = list(prev)
            i = draw(st.integers(0, n - 1))
            mask[i] = not mask[i]
        elif mode == "none":
            mask = [False] * n
        elif mode == "all":
            mask = [True] * n
        else:
            mask = [draw(st.booleans()) for _ in range(n)]
        s["mask"] = mask
        return s

    return step()


class ManyBlocksRunner(Runner):
    """Hundreds of blocks per group: only the bitwise untouched-state invariant and the step-counter model are checked (no reference model),
    so that selector / mask bookkeeping is exercised at sizes where per-block reference checking would be too slow."""

    def __init__(self, config: dict):
        super().__init__(config, check_reference=False)

    def nontrivial_rule(self) -> bool:
        return self.stats["mask_changes"] >= 1 and self.stats["blocks"] > 256


def config_strategy_many():
    from hypothesis import strategies as st

    @st.composite
    def config(draw: Any) -> dict:
        cfg = draw(gen.st_config(dtypes=(("f32", "f32"),), solvers=("eigen",), kinds=("shampoo", "shampoo", "soap"), allow_ignored=False, allow_override=False, gscale=1.0))
        cfg["mpd"] = draw(st.sampled_from([1, 2, 2, 3]))
        cfg["merge"] = False
        cfg["epsilon"] = 1e-3
        big = draw(st.sampled_from([[130, 2], [260, 2], [300], [17, 16], [9, 8, 4], [66, 4], [520]]))
        small = draw(st.sampled_from([[2, 2], [2], [3, 2]]))
        n_small = draw(st.integers(2, 4))
        shapes = [big] + [list(small) for _ in range(n_small)]
        if draw(st.booleans()):
            shapes.insert(draw(st.integers(0, len(shapes))), draw(st.sampled_from([[70, 2], [40, 3], [65]])))
        return {"groups": [{"cfg": cfg, "shapes": shapes}], "pseed": draw(st.integers(0, 10**5))}

    return config()


STREAMS = {
    "history": Stream("history", machine=(config_strategy, step_strategy, Runner), quick=1200, thorough=40000, shards_quick=16, shards_thorough=16,
                      max_steps=15, max_steps_thorough=30),
    "many_blocks": Stream("many_blocks", machine=(config_strategy_many, step_strategy, ManyBlocksRunner), quick=160, thorough=4000, shards_quick=16, shards_thorough=16,
                          max_steps=8, max_steps_thorough=12),
}
