"""C02 - warm-up equals the grafted torch.optim optimizer; afterwards its step norm is kept.

Streams
  warmup : differential against torch.optim.{SGD, Adagrad, RMSprop, Adam, AdamW} on clones, hyperparameters mapped as in README examples 1-4,
           restricted to the range where both formulations are mathematically identical (dampening 0, no lr decay, zero initial accumulator,
           not centered, no amsgrad; for the bias-corrected Adam variants only presence patterns under which every parameter's update count equals
           the group's step count).  All shapes of order 0-4 under every blocking / merging setting.
  norm   : for every block at every step >= start_preconditioning_step (momentum 0, weight decay 0): ||delta w_block||_F = lr * ||graft direction||_F
           and the direction is the Shampoo direction (cosine 1), both recomputed by the harness from the *stored* state.
"""
from __future__ import annotations

import math
from typing import Any

import torch

from .. import gen, refmodel as rm
from ..core import Outcome, Stream, call_sut

LEVEL = "exploration"
RULE = (
    "warmup: case = (target in {sgd, adagrad, rmsprop, adam, adamw}, lr, beta1, beta2, eps, weight decay, momentum, nesterov, 1-3 shapes of order 0-4, "
    "max_preconditioner_dim, merge on/off, dtype, 1-10 warm-up steps, presence pattern). Non-trivial = >= 2 warm-up steps and >= 1 parameter that is "
    "split or merged. norm: case = configuration with grafting x shapes x history crossing start_preconditioning_step; non-trivial = >= 1 step >= start "
    "with a non-zero Shampoo direction. Distinct = canonical JSON."
)
BOUNDS = "orders 0-4, numel <= 300, warm-up <= 60 steps (warmup stream) / 1003-2060 steps with alternating gradient presence (warmup_long), float32/float64; norm stream: Shampoo and SOAP"
TOLERANCES = (
    "warmup: ||w - w_torch||_F <= tau * (sum_s ||delta w_s||_F + u*||w||) with tau = 256*eps(dtype) for SGD/Adagrad/RMSprop and 64*eps(float32) for Adam/AdamW "
    "(the implementation's bias-correction scalars are float32). norm: relative 64*eps(dtype)*(1 + cancellation factor) on norms, 1 - cos <= the same"
)
ASSUMPTIONS = ["torch.optim single-tensor implementations (foreach=False) are the reference for the five grafting targets"]
NONTRIVIAL_FLOOR = 30


def strategy_warmup():
    from hypothesis import strategies as st

    @st.composite
    def case(draw: Any) -> dict:
        mpd = draw(st.one_of(st.integers(1, 9), st.just(1024)))
        k = draw(st.integers(1, 3))
        kind = draw(st.sampled_from(["sgd", "adagrad", "rmsprop", "adam", "adamw"]))
        mom = draw(st.sampled_from([0.0, 0.0, 0.5, 0.9])) if kind in ("sgd", "rmsprop") else 0.0
        T = draw(st.one_of(st.integers(1, 10), st.integers(1, 10), st.integers(11, 60)))
        n_masks = T
        pattern = draw(st.sampled_from(["all", "all", "all_or_nothing", "free"]))
        if kind in ("adam", "adamw") and pattern == "free":
            pattern = "all_or_nothing"
        if kind in ("rmsprop", "sgd") and mom and pattern == "free":
            pattern = "all_or_nothing"  # torch's lazily created momentum buffer is seeded at a parameter's own first update
        masks = []
        for _ in range(n_masks):
            if pattern == "all":
                masks.append([True] * k)
            elif pattern == "all_or_nothing":
                masks.append([draw(st.booleans())] * k)
            else:
                masks.append([draw(st.booleans()) for _ in range(k)])
        return {
            "kind": kind, "lr": draw(gen.st_f32(2.0**-13, 0.5)), "beta1": draw(st.sampled_from([0.0, 0.5, 0.9, 0.984375])),
            "beta2": draw(st.sampled_from([0.5, 0.9, 0.99, 0.9990234375])), "eps": draw(st.sampled_from([1e-10, 1e-8, 1e-3, 0.1])),
            "wd": draw(st.sampled_from([0.0, 0.0, 0.3, 0.01])), "mom": mom, "nesterov": draw(st.booleans()) and mom > 0 and kind == "sgd",
            "mpd": mpd, "merge": draw(st.booleans()), "shapes": [draw(gen.st_shape(mpd)) for _ in range(k)],
            "dtype": draw(st.sampled_from(["f64", "f64", "f32"])), "seed": draw(st.integers(0, 10**6)), "masks": masks,
            "gkind": draw(st.sampled_from(gen.GRAD_KINDS)), "gscale": draw(st.sampled_from([1.0, 1.0, 1e-3, 30.0])),
            "freq": draw(st.integers(1, 3)), "playout": draw(st.sampled_from([False, False, False, True])),
        }

    return case()


def oracle_warmup(case: dict) -> Outcome:
    from distributed_shampoo.distributed_shampoo import DistributedShampoo
    from distributed_shampoo.shampoo_types import AdaGradGraftingConfig, AdamGraftingConfig, RMSpropGraftingConfig, SGDGraftingConfig

    out = Outcome()
    c = case
    dt = gen.DT[c["dtype"]]
    k = c["kind"]
    P0 = [gen.make_tensor(s, "gauss", c["seed"] * 31 + i, 1.0, dt) for i, s in enumerate(c["shapes"])]
    if c.get("playout"):
        # the same values in a non-row-major memory layout (transposed weight, channels_last kernel) wherever the optimizer's view of the merged
        # dims is legal for such a tensor; torch.optim is layout-agnostic, so the trajectories must still agree
        for i, t in enumerate(P0):
            if t.dim() >= 2:
                rev = list(range(t.dim()))[::-1]
                t2 = t.permute(*rev).contiguous().permute(*rev)
                md_ = tuple(rm.merge_dims(tuple(t.shape), c["mpd"], True)) if c["merge"] else tuple(t.shape)
                try:
                    t2.view(md_)
                except RuntimeError:
                    continue
                if not t2.is_contiguous():
                    P0[i] = t2
                    out.classes.append("non_row_major_parameter")
    pa = [torch.nn.Parameter(p.clone()) for p in P0]
    pb = [torch.nn.Parameter(p.clone()) for p in P0]
    common = dict(lr=c["lr"], epsilon=1e-12, max_preconditioner_dim=c["mpd"], use_merge_dims=c["merge"], precondition_frequency=c["freq"],
                  start_preconditioning_step=gen.INF_STEP, weight_decay=c["wd"], preconditioner_dtype=dt)
    nest = bool(c["nesterov"])
    try:
        if k == "sgd":
            A = DistributedShampoo(pa, betas=(0.0, 1.0), momentum=c["mom"], use_nesterov=nest, use_decoupled_weight_decay=False, grafting_config=SGDGraftingConfig(), **common)
            B = torch.optim.SGD(pb, lr=c["lr"], momentum=c["mom"], nesterov=nest, weight_decay=c["wd"], foreach=False)
        elif k == "adagrad":
            A = DistributedShampoo(pa, betas=(0.0, 1.0), use_decoupled_weight_decay=False, grafting_config=AdaGradGraftingConfig(epsilon=c["eps"]), **common)
            B = torch.optim.Adagrad(pb, lr=c["lr"], eps=c["eps"], weight_decay=c["wd"], foreach=False)
        elif k == "rmsprop":
            A = DistributedShampoo(pa, betas=(0.0, 1.0), momentum=c["mom"], use_decoupled_weight_decay=False, use_bias_correction=False,
                                   grafting_config=RMSpropGraftingConfig(beta2=c["beta2"], epsilon=c["eps"]), **common)
            B = torch.optim.RMSprop(pb, lr=c["lr"], alpha=c["beta2"], eps=c["eps"], momentum=c["mom"], weight_decay=c["wd"], foreach=False)
        else:
            A = DistributedShampoo(pa, betas=(c["beta1"], c["beta2"]), use_decoupled_weight_decay=(k == "adamw"), use_bias_correction=True,
                                   grafting_config=AdamGraftingConfig(beta2=c["beta2"], epsilon=c["eps"]), **common)
            B = (torch.optim.AdamW if k == "adamw" else torch.optim.Adam)(pb, lr=c["lr"], betas=(c["beta1"], c["beta2"]), eps=c["eps"], weight_decay=c["wd"], foreach=False)
    except Exception as e:  # noqa: BLE001
        out.fail("C02.construct", f"constructor raised {type(e).__name__}", str(e)[:300])
        return out
    eps_d = torch.finfo(dt).eps
    tau = 64 * float(torch.finfo(torch.float32).eps) if k in ("adam", "adamw") else 256 * eps_d
    # Shadow trajectory: the same torch.optim optimizer on parameters that receive, after every step, a relative perturbation of the size of the
    # rounding differences the tolerance allows per step (tau/16).  Its distance from the unperturbed reference measures how the *reference dynamics*
    # amplify rounding-sized differences (coupled weight decay feeds the parameter back into a gradient that Adam / RMSprop / Adagrad normalise: for
    # elements whose own gradient is ~0 the update is a sign-like function of the parameter).  16 x that distance is added to the tolerance, and the
    # comparison stops as uninformative once the shadow has separated by 1e-3 of the parameter norm.
    pc = [torch.nn.Parameter(p.clone()) for p in P0]
    Bsh = type(B)(pc, **{kk: vv for kk, vv in B.defaults.items() if kk in ("lr", "momentum", "nesterov", "weight_decay", "eps", "alpha", "betas", "foreach", "dampening")})
    gsh = torch.Generator().manual_seed(c["seed"] + 991)
    # AdamW in torch multiplies the parameter by (1 - lr*wd) first; Shampoo adds wd*w to the direction: identical up to rounding of lr*wd*w
    cum = [0.0] * len(pa)
    steps = 0
    masks = c["masks"] if "masks" in c else [c["cycle"][t % len(c["cycle"])] for t in range(c["T"])]
    for t, mask in enumerate(masks):
        grads = gen.step_grads(c["shapes"], {"mask": mask, "gseed": c["seed"] + 13 * t, "gkind": c["gkind"], "gscale": c["gscale"]}, dt)
        for a, b, g in zip(pa, pb, grads):
            a.grad = None if g is None else g.clone()
            b.grad = None if g is None else g.clone()
        prev = [b.detach().clone() for b in pb]
        ok, _ = call_sut(out, "C02.step", "DistributedShampoo.step", A.step)
        if not ok:
            return out
        B.step()
        for cpar, g in zip(pc, grads):
            cpar.grad = None if g is None else g.clone()
        Bsh.step()
        with torch.no_grad():
            for cpar in pc:
                cpar.mul_(1.0 + (tau / 16) * (2 * torch.rand(cpar.shape, generator=gsh, dtype=torch.float64) - 1).to(dt))
                # plus an absolute perturbation at the bottom of the normal range: rounding in the subnormal range is not relative, and an element
                # that sits there can be an unstable fixed point of the reference dynamics (w <- w (1 - lr*wd/eps) for |w| << eps)
                cpar.add_((float(torch.finfo(dt).tiny) * (2 * torch.rand(cpar.shape, generator=gsh, dtype=torch.float64) - 1)).to(dt))
        if any(mask):
            steps += 1
        # Adam variants: Shampoo evaluates both bias corrections as float32 scalars; their relative error (t+2)*2^-23 / bc enters the step
        extra = 0.0
        if k in ("adam", "adamw") and steps >= 1:
            tt = steps
            u32 = 2.0**-24
            extra = 4 * (tt + 2) * 2 * u32 * (0.5 / (1 - c["beta2"] ** tt) + (c["beta1"] ** tt / (1 - c["beta1"] ** tt) if c["beta1"] > 0 else 0.0))
        for i, (a, b) in enumerate(zip(pa, pb)):
            cum[i] += (1.0 + extra / tau) * float((b.detach().double() - prev[i].double()).norm())
            dev = float((a.detach().double() - b.detach().double()).norm())
            # each side rounds the parameter after every update: an absolute floor of a few ulps of w per step, on top of tau * path length
            scale = cum[i] + (4 * eps_d / tau) * (t + 1) * float(b.detach().double().norm())
            sep = float((pc[i].detach().double() - b.detach().double()).norm())
            if not math.isfinite(dev) or not math.isfinite(scale) or not math.isfinite(sep):
                out.classes.append("overflow_domain")
                return out
            walk = (tau / 16) * float(b.detach().double().norm()) * math.sqrt(t + 1.0)  # what the injected noise alone amounts to without amplification
            out.metric("shadow_amplification", sep / walk if walk > 0 else 0.0)
            if (sep > 30 * walk and sep > 4 * tau * scale) or (sep > 1e-3 * float(b.detach().double().norm()) + 1e-300 and sep > 64 * tau * scale):
                out.classes.append("reference_dynamics_amplify_rounding")  # nothing can be concluded from this step on
                out.nontrivial = steps >= 2
                return out
            scale = scale + 16 * sep / tau
            out.sub_evaluations += 1
            out.metric(f"dev_over_tau_scale/{k}", dev / (tau * scale) if scale > 0 else (0.0 if dev == 0 else float("inf")))
            if dev > tau * scale:
                out.fail(f"C02.warmup.{k}", f"trajectory differs from torch.optim ({k})", f"step {t + 1} param {i} shape {c['shapes'][i]}: dev {dev:.3e} > {tau:.1e} * {scale:.3e}", dev, tau * scale)
                return out
    eff_layout = [rm.block_slices(s, c["mpd"], c["merge"]) for s in c["shapes"]]
    out.nontrivial = steps >= 2 and any(len(sls) >= 2 or tuple(md) != tuple(s) for (md, sls), s in zip(eff_layout, c["shapes"]))
    out.classes += [k, f"dtype_{c['dtype']}"]
    if c["mom"]:
        out.classes.append("momentum" + ("_nesterov" if nest else ""))
    if c["wd"]:
        out.classes.append("weight_decay")
    if any(not all(m) for m in masks):
        out.classes.append("absent_gradients")
    if len(masks) > 1000:
        out.classes.append("warmup_longer_than_1000_steps")
        out.nontrivial = out.nontrivial or steps >= 1000
    return out


def strategy_warmup_long():
    """Warm-ups of more than a thousand steps during which the gradient-presence pattern changes at every step (alternating heads / experts)."""
    from hypothesis import strategies as st

    @st.composite
    def case(draw: Any) -> dict:
        c = draw(strategy_warmup())
        c.pop("masks")
        k = len(c["shapes"])
        if k == 1:
            c["shapes"] = c["shapes"] * 2
            k = 2
        elif draw(st.booleans()):
            c["shapes"][1] = list(c["shapes"][0])
        free = not (c["kind"] in ("adam", "adamw") or c["mom"])
        if free:
            L = draw(st.integers(2, 3))
            cyc = [[draw(st.booleans()) for _ in range(k)] for _ in range(L)]
            cyc[0] = [True, False] + cyc[0][2:]
            cyc[1] = [False, True] + cyc[1][2:]
        else:
            cyc = [[True] * k, [False] * k, [True] * k]
        c["cycle"] = cyc
        c["T"] = draw(st.sampled_from([1003, 1040, 1100, 1300, 2060]))
        c["lr"] = min(c["lr"], 0.00390625)
        c["gscale"] = 1.0
        return c

    return case()


# --------------------------------------------------------------------------- norm transfer
def strategy_norm():
    from hypothesis import strategies as st

    @st.composite
    def case(draw: Any) -> dict:
        cfg = draw(gen.st_config(dtypes=(("f32", "f32"), ("f64", "f64"), ("f64", "f32")), solvers=("eigen", "eigen_stab"), kinds=("shampoo", "shampoo", "soap"),
                                 graft_types=("sgd", "adagrad", "rmsprop", "adam")))
        cfg["momentum"], cfg["dampening"], cfg["nesterov"], cfg["wd"] = 0.0, 0.0, False, 0.0
        cfg["start"] = draw(st.integers(cfg["freq"], cfg["freq"] + 2))
        k = draw(st.integers(1, 3))
        shapes = [draw(gen.st_shape(cfg["mpd"], max_numel=200)) for _ in range(k)]
        T = draw(st.integers(cfg["start"], cfg["start"] + 4))
        steps = draw(st.lists(gen.st_step(k, cfg["gscale"], edits=False), min_size=T, max_size=T))
        return {"cfg": cfg, "shapes": shapes, "steps": steps, "pseed": draw(st.integers(0, 10**5))}

    return case()


def oracle_norm(case: dict) -> Outcome:
    out = Outcome()
    cfg, shapes = case["cfg"], case["shapes"]
    eff = gen.effective(cfg)
    dt = gen.DT[cfg["pdtype"]]
    ep = float(torch.finfo(dt).eps)
    params = gen.make_params(shapes, case["pseed"], dt, cfg["gscale"])
    ok, opt = call_sut(out, "C02.construct", "DistributedShampoo", lambda: gen.build_optimizer(params, cfg))
    if not ok:
        return out
    layout = [rm.block_slices(s, eff["mpd"], eff["merge"]) for s in shapes]
    t = 0
    checked = 0
    graft = cfg["graft"]
    soap = cfg["precond"]["kind"] == "soap"
    for si, s in enumerate(case["steps"]):
        grads = gen.step_grads(shapes, s, dt)
        for p, g in zip(params, grads):
            p.grad = None if g is None else g.clone()
        prev = [p.detach().clone() for p in params]
        pre_fg = {}
        if eff["beta1"] != 0.0:
            for pi, p in enumerate(params):
                for bi in range(len(layout[pi][1])):
                    pre_fg[(pi, bi)] = opt.state[p][f"block_{bi}"]["filtered_grad"].detach().clone().double()
        try:
            opt.step()
        except Exception as e:  # noqa: BLE001
            from .. import history

            if history.is_lapack_failure(opt, params, e):
                out.classes.append("lapack_eigh_returned_nan")  # see DESIGN 11.3: reproduced by an independent eigh of the stored factor
                return out
            call_sut(out, "C02.step", "DistributedShampoo.step", lambda: (_ for _ in ()).throw(e))
            return out
        if any(s["mask"]):
            t += 1
        if t < eff["start"] or not any(s["mask"]):
            continue
        for pi, p in enumerate(params):
            if grads[pi] is None:
                continue
            md, sls = layout[pi]
            for bi, sl in enumerate(sls):
                st_ = opt.state[p][f"block_{bi}"]
                g = grads[pi].view(md)[sl].double()
                b1, b3 = eff["beta1"], eff["beta3"]
                if b1 != 0.0:
                    gbar = b3 * pre_fg[(pi, bi)] + (1 - b3) * g
                    if eff["bias"]:
                        gbar = gbar / (1.0 - b3 * b1 ** (t - 1))
                else:
                    gbar = g
                if graft["type"] == "sgd":
                    gd = gbar
                else:
                    gb2 = 1.0 if graft["type"] == "adagrad" else graft["beta2"]
                    gbc = 1.0 - gb2**t if graft["type"] == "adam" and gb2 < 1.0 else 1.0
                    gd = gbar / ((st_["adagrad"].double() / gbc).sqrt() + graft["eps"])
                order = g.dim()
                ignored = cfg["precond"].get("ignored", [])
                sel = [d not in ignored for d in range(order)]
                delta = (p.detach().view(md)[sl].double() - prev[pi].view(md)[sl].double())
                if soap:
                    # eigenvalue-corrected preconditioner: only the norm clause is checked here (the direction is C03's subject).  A lower bound of the
                    # preconditioned direction's norm (orthonormal rotations; denominators (v/bc + eps)^(1/root) <= max(1, v/(1-beta2) + eps)) sizes the
                    # effect of the documented 1e-16 guard
                    mats, ds = [], None
                    v = st_["shampoo"].corrected_eigenvalues.double()
                    b2 = eff["beta2"]
                    dmax = max(1.0, float(v.max()) / ((1.0 - b2) if b2 < 1.0 else 1.0) + eff["epsilon"]) if v.numel() else 1.0
                    ns = float(gbar.norm()) / dmax
                    nd, ng = float(delta.norm()), float(gd.norm())
                    if not all(math.isfinite(x) for x in (nd, ng, ns)) or ng > 1e15:
                        out.classes.append("overflow_domain")
                        return out
                    if ns < 1e-14:
                        out.classes.append("zero_shampoo_direction")
                        continue
                    canc = 0.0
                else:
                    mats = [m.double() for m in st_["shampoo"].inv_factor_matrices]
                    ds = rm.mode_apply(gbar, mats, sel)
                    nd, ng, ns = float(delta.norm()), float(gd.norm()), float(ds.norm())
                    if not all(math.isfinite(x) for x in (nd, ng, ns)) or max(ng, ns) > 1e15:
                        out.classes.append("overflow_domain")
                        return out
                    if ns <= 1e-12 * (math.prod(rm.spec_norm(m) for m in mats) * float(gbar.norm()) + 1e-300) or ns < 1e-14:
                        out.classes.append("zero_shampoo_direction")
                        continue
                    # cancellation factor: how much of the operand norms survives in the Shampoo direction / in the update relative to w
                    P = math.prod(rm.spec_norm(m) for m in mats) if mats else 1.0
                    canc = P * float(gbar.norm()) / ns
                wn = float(prev[pi].view(md)[sl].double().norm())
                lr = cfg["lr"]
                # float32 bias-correction scalars (amplified by 1/bc, see refmodel.bias_corr) and the documented 1e-16 guard in the norm ratio
                fl = 0.0
                if b1 != 0.0 and eff["bias"]:
                    bc1 = 1.0 - b3 * b1 ** (t - 1)
                    fl += (t + 2) * 2 * rm.U32 * b3 * b1 ** (t - 1) / bc1
                if graft["type"] == "adam" and graft["beta2"] < 1.0:
                    fl += (t + 2) * 2 * rm.U32 / (1.0 - graft["beta2"] ** t)
                tol = 64 * ep * (1 + canc) + 64 * float(torch.finfo(torch.float32).eps) + 4 * fl + 2e-16 / ns + (64 * ep * wn / (lr * ng) if lr * ng > 0 else float("inf"))
                if tol > 0.05:
                    out.classes.append("uninformative")
                    continue
                checked += 1
                out.sub_evaluations += 1
                rel = abs(nd - lr * ng) / (lr * ng)
                out.metric("norm_rel_over_tol", rel / tol)
                if rel > tol:
                    out.fail("C02.norm.transfer", "block update norm differs from lr * norm of the grafted direction", f"step {t} param {pi} block {bi}: ||dw||={nd:.6e} lr*||graft||={lr * ng:.6e} tol {tol:.2e}", nd, lr * ng)
                    return out
                if soap:
                    continue
                cos = float((delta * (-ds)).sum()) / (nd * ns) if nd > 0 else 1.0
                out.metric("one_minus_cos_over_tol", (1 - cos) / tol)
                if 1 - cos > tol:
                    out.fail("C02.norm.direction", "block update is not parallel to the Shampoo direction", f"step {t} param {pi} block {bi}: cos {cos:.8f} tol {tol:.2e}")
                    return out
    out.nontrivial = checked >= 1
    out.classes += [f"graft_{graft['type']}", f"dtype_{cfg['pdtype']}", "soap" if soap else "shampoo"]
    return out


STREAMS_EXTRA = {
    "warmup_long": Stream("warmup_long", oracle=oracle_warmup, strategy=strategy_warmup_long, quick=48, thorough=400, shards_quick=8, shards_thorough=16),
}
STREAMS = {
    "warmup": Stream("warmup", oracle=oracle_warmup, strategy=strategy_warmup, quick=3000, thorough=30000, shards_quick=16, shards_thorough=16),
    "norm": Stream("norm", oracle=oracle_norm, strategy=strategy_norm, quick=1000, thorough=10000, shards_quick=16, shards_thorough=16),
}
STREAMS.update(STREAMS_EXTRA)
