"""C12 - eigenvector routines return orthonormal, ordered, diagonalising bases.

eigh method: Q orthonormal, Q^T A Q diagonal, Rayleigh quotients ascending.  Diagonal-flagged input => identity exactly; 1x1 => one.
QR method with a zero estimate == the eigh path (bitwise).  QR otherwise: always orthonormal with ascending Rayleigh quotients; identity of the
basis compared with a float64 reference orthogonal iteration  Q_j = qr(A Q_{j-1}).Q, sorted by Rayleigh quotient, up to column signs, where every
iteration count k <= max_iterations is admissible and the deviation bound of candidate k is K*n*u*prod_j cond(A Q_{j-1}) (DESIGN C12).  An exact
eigenbasis (ascending) must be left fixed up to column signs wherever that is numerically meaningful.
"""
from __future__ import annotations

import math
from typing import Any

import torch

from .. import matgen
from ..core import Outcome, Stream, call_sut

LEVEL = "exploration"
RULE = (
    "case = (n in 1..24 quick / 1..64 thorough, PSD spectrum recipe with distinct / repeated / zero eigenvalues, basis, float32/float64, method eigh | QR with "
    "max_iterations 1..50 and tolerance 1e-8..1e-1, estimate in {zero, exact eigenbasis ascending / permuted / sign-flipped, random orthonormal, perturbed eigenbasis}, "
    "diagonal flag). Non-trivial = n >= 2 and (QR with a non-zero estimate, or eigh on a non-diagonal matrix). Distinct = canonical JSON."
)
BOUNDS = "n <= 24 / 64, QR max_iterations <= 50; scales 1e-6..1e6 plus 1e+-20..1e+-30 (float32) and up to 1e+-250 (float64)"
TOLERANCES = "K = 64: ||Q^T Q - I||_F <= K n u; offdiag(Q^T A Q) and Rayleigh order <= K n u ||A||; QR basis: K n u prod cond(A Q_j), informative only below 0.05"
ASSUMPTIONS = ["float64 torch.linalg.qr / eigh as reference arithmetic"]
NONTRIVIAL_FLOOR = 100
K = 64.0
D = torch.float64


def _estimate(kind: str, n: int, V: torch.Tensor, lam: torch.Tensor, seed: int, dt: torch.dtype) -> torch.Tensor:
    g = torch.Generator().manual_seed(seed)
    order = lam.argsort()
    Va = V[:, order]  # ascending exact eigenbasis
    if kind == "zero":
        return torch.zeros(n, n, dtype=dt)
    if kind in ("permutation", "exchange"):
        # an orthonormal estimate that is a permutation matrix (what eigh returns for a diagonal factor): many exact zeros, possibly an all-zero diagonal
        perm = torch.arange(n - 1, -1, -1) if kind == "exchange" else torch.randperm(n, generator=g)
        return torch.eye(n, dtype=dt)[:, perm].contiguous()
    if kind == "exact":
        Q = Va
    elif kind == "exact_signflip":
        Q = Va * (torch.randint(0, 2, (n,), generator=g).double() * 2 - 1)
    elif kind == "exact_permuted":
        Q = Va[:, torch.randperm(n, generator=g)]
    elif kind == "random":
        Q = torch.linalg.qr(torch.randn(n, n, generator=g, dtype=D)).Q
    else:
        Q = torch.linalg.qr(Va + 0.05 * torch.randn(n, n, generator=g, dtype=D)).Q
    return Q.to(dt)


def oracle(case: dict) -> Outcome:
    import matrix_functions as mf
    from matrix_functions_types import EighEigenvectorConfig, QRConfig

    out = Outcome()
    n, dt = case["n"], {"f32": torch.float32, "f64": torch.float64}[case["dtype"]]
    u = float(torch.finfo(dt).eps)
    A, lam, V = matgen.make_matrix(n, case["recipe"], dt)
    if case.get("layout") == "col" and n > 1:
        A = A.t().contiguous().t()  # same symmetric matrix, column-major memory layout (what .T / linalg.inv / cholesky_inverse hand back)
    Ad = A.to(D)
    if n and Ad.numel():
        # eigenvectors do not depend on the scale: all oracle arithmetic runs on an exactly (power of two) rescaled copy, so that matrices near the
        # ends of the dtype's exponent range (whose squares / norms overflow or underflow) are judged like any other
        amax = float(Ad.abs().max())
        if amax > 0 and (amax > 1e15 or amax < 1e-15):
            import math

            Ad = Ad * (2.0 ** (-math.frexp(amax)[1]))
            cl_extreme = True
        else:
            cl_extreme = False
    else:
        cl_extreme = False
    an = float(Ad.norm()) if n else 0.0
    eye = torch.eye(n, dtype=D)
    method = case["method"]
    diag_input = bool((A == torch.diag(torch.diagonal(A))).all())
    cl = out.classes
    cl += [method, case["dtype"]] + (["extreme_scale"] if cl_extreme else [])
    cfg = EighEigenvectorConfig() if method == "eigh" else QRConfig(max_iterations=case["max_it"], tolerance=case["tol"])
    est = _estimate(case.get("estimate", "zero"), n, V, lam, case.get("eseed", 0), dt) if method == "qr" else None
    flag_diag = bool(case.get("flag_diag")) and diag_input
    A0 = A.clone()
    est0 = None if est is None else est.clone()
    ok, Q = call_sut(out, "C12.call", f"matrix_eigenvectors[{method}]", lambda: mf.matrix_eigenvectors(A, est, cfg, is_diagonal=flag_diag))
    if not ok:
        return out
    # purity: inputs untouched; a second call returns the same value although the first result has been overwritten in place
    # (results must not alias each other, a cached object, or the inputs)
    if not torch.equal(A, A0) or (est is not None and not torch.equal(est, est0)):
        out.fail("C12.purity.inputs", "matrix_eigenvectors modified its input in place")
    if n > 1:
        keep = Q.clone()
        aliases_input = Q.data_ptr() == A.data_ptr() or (est is not None and Q.data_ptr() == est.data_ptr())
        if not aliases_input:
            Q.mul_(-3.0).add_(1.5)
            if not torch.equal(A, A0) or (est is not None and not torch.equal(est, est0)):
                out.fail("C12.purity.aliasing", "the returned basis shares memory with an input")
            ok2, Q2 = call_sut(out, "C12.call", f"matrix_eigenvectors[{method}] (second call)", lambda: mf.matrix_eigenvectors(A, est, cfg, is_diagonal=flag_diag))
            if ok2 and not torch.equal(Q2, keep):
                out.fail("C12.purity.aliasing", "a second call returns a different basis after the first result was modified in place (results alias a shared object)",
                         f"n={n} method={method} diagonal_flag={flag_diag}")
        Q = keep
    if n == 1:
        if float(Q.reshape(-1)[0]) != 1.0:
            out.fail("C12.1x1", "1x1 input does not yield one")
        cl.append("1x1")
        return out
    if flag_diag:
        cl.append("diagonal_flag")
        if not torch.equal(Q.to(D), eye):
            out.fail("C12.diagonal_flag", "diagonal-flagged input does not yield the identity")
        return out
    Qd = Q.to(D)
    if tuple(Qd.shape) != (n, n) or not bool(torch.isfinite(Qd).all()):
        out.fail("C12.shape_finite", "result has the wrong shape or is not finite")
        return out
    orth = float((Qd.T @ Qd - eye).norm())
    out.metric("orth_over_nu", orth / (n * u))
    if orth > K * n * u:
        out.fail("C12.orthonormal", "basis is not orthonormal", f"n={n} method={method} ||Q^TQ-I||={orth:.3e} bound={K * n * u:.3e}")
    M = Qd.T @ Ad @ Qd
    ray = torch.diag(M)
    asc = float((ray[:-1] - ray[1:]).clamp_min(0).max())
    if asc > K * n * u * an + 1e-300:
        out.fail("C12.ascending", "columns are not ordered by ascending Rayleigh quotient", f"n={n} method={method} violation={asc:.3e} bound={K * n * u * an:.3e}")
    zero_est = method == "qr" and not bool(est.any())
    if method == "eigh" or zero_est:
        off = float((M - torch.diag(ray)).norm())
        out.metric("offdiag_over_nuA", off / (n * u * an + 1e-300))
        if off > K * n * u * an + 1e-300:
            out.fail("C12.diagonalises", "Q^T A Q is not diagonal", f"n={n} off={off:.3e} bound={K * n * u * an:.3e}")
        if zero_est:
            cl.append("qr_zero_estimate")
            ok, Qe = call_sut(out, "C12.call", "matrix_eigenvectors[eigh]", lambda: mf.matrix_eigenvectors(A, None, EighEigenvectorConfig()))
            if ok and not torch.equal(Qe, Q):
                out.fail("C12.qr_zero_fallback", "QR with a zero estimate differs from the eigendecomposition path")
        out.nontrivial = not diag_input
        return out
    # ---- QR from a non-zero estimate
    out.nontrivial = True
    cl.append(f"estimate_{case['estimate']}")
    Qk = est.to(D)
    amp = 1.0
    informative_all = True
    best = None
    max_bound = 0.0
    for k in range(1, case["max_it"] + 1):
        Z = Ad @ Qk
        sv = torch.linalg.svdvals(Z)
        cond = float(sv.max() / sv.min()) if float(sv.min()) > 0 else float("inf")
        amp *= cond
        Qk = torch.linalg.qr(Z).Q
        evs = torch.einsum("ij,ik,kj->j", Qk, Ad, Qk)
        srt = evs.sort().values
        mingap = float((srt[1:] - srt[:-1]).min())
        bound = K * n * u * amp if mingap > K * n * u * an else float("inf")
        max_bound = max(max_bound, bound)
        if not bound < 0.05:
            informative_all = False
            if k > 12:
                break
            continue
        Qs = Qk[:, evs.argsort()]
        dev = float(((Qs.T @ Qd).abs() - eye).norm())
        r = dev / bound
        if best is None or r < best[0]:
            best = (r, k, dev, bound)
    if informative_all and best is not None:
        cl.append("qr_informative")
        out.metric("qr_dev_over_bound", best[0])
        if best[0] > 1.0:
            out.fail("C12.qr_update", "basis is not the orthogonal-iteration update of the estimate (for any admissible iteration count)",
                     f"n={n} max_it={case['max_it']} estimate={case['estimate']} best k={best[1]} dev={best[2]:.3e} bound={best[3]:.3e}")
        if case["estimate"] in ("exact", "exact_signflip"):
            order = lam.argsort()
            Va = V[:, order]
            dev = float(((Va.T @ Qd).abs() - eye).norm())
            gaps = lam.sort().values
            g = float((gaps[1:] - gaps[:-1]).min())
            # an exact eigenbasis is a fixed point up to signs - meaningful when eigenvalues are separated
            fb = max_bound + K * n * u * an / g if g > 0 else float("inf")
            if fb < 0.05:
                cl.append("fixed_point_checked")
                out.metric("fixed_point_over_bound", dev / fb)
                if dev > fb:
                    out.fail("C12.fixed_point", "an exact eigenbasis is not left fixed up to column signs", f"n={n} dev={dev:.3e} bound={fb:.3e}")
    else:
        cl.append("qr_uninformative")
    return out


def strategy():
    return _strategy(24)


def strategy_large():
    return _strategy(64)


def _strategy(nmax: int):
    from hypothesis import strategies as st

    @st.composite
    def case(draw: Any) -> dict:
        dtype = draw(st.sampled_from(["f32", "f64"]))
        method = draw(st.sampled_from(["eigh", "qr", "qr", "qr"]))
        recipe = draw(matgen.st_recipe(max_logk=3.0 if dtype == "f32" else 6.0, allow_neg=False, allow_zero=True))
        c: dict = {"n": (draw(st.one_of(st.integers(2, min(8, nmax)), st.integers(1, nmax))) if nmax <= 24 else draw(st.one_of(st.integers(25, nmax), st.sampled_from([32, 33, 64])))), "dtype": dtype, "method": method, "recipe": recipe,
                   "flag_diag": draw(st.booleans()), "layout": draw(st.sampled_from(["row", "row", "col"]))}
        if draw(st.sampled_from([False] * 7 + [True])):
            # the ends of the dtype's exponent range: entries are representable, their squares / Frobenius norms are not
            recipe["scale"] = draw(st.sampled_from([1e20, 1e-20, 1e30, 1e-30] if dtype == "f32" else [1e160, 1e-160, 1e250, 1e-250, 1e20]))
        if method == "qr":
            c["max_it"] = draw(st.one_of(st.integers(1, 5), st.integers(1, 50)))
            c["tol"] = draw(st.sampled_from([1e-1, 1e-3, 1e-5, 1e-8]))
            c["estimate"] = draw(st.sampled_from(["zero", "exact", "exact", "exact_signflip", "exact_permuted", "random", "random", "perturbed", "permutation", "exchange"]))
            c["eseed"] = draw(st.integers(0, 10**6))
        return c

    return case()


_ = math

STREAMS = {
    "bases": Stream("bases", oracle=oracle, strategy=strategy, quick=10000, thorough=100000, shards_quick=16, shards_thorough=16),
    "bases_large": Stream("bases_large", oracle=oracle, strategy=strategy_large, quick=320, thorough=6000, shards_quick=8, shards_thorough=16),
}
