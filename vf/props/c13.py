"""C13 - failed root computations are tolerated N times then raised; stored roots stay finite.

Model-based fault injection: a Hypothesis state machine drives the real optimizer while the matrix routine used by the
preconditioner list (matrix_inverse_root / matrix_eigenvectors, as imported into shampoo_preconditioner_list) is wrapped
from the harness side.  Every refresh consumes an *outcome script* {call index -> ok | raise | nan | inf}; the call order is
fixed by the masked block order (parameters, blocks, factors).  A per-block failure-counter model predicts, at every step,
whether step() must raise and with which exception type.
"""
from __future__ import annotations

import logging
import traceback
from typing import Any
from unittest import mock

import torch

from .. import gen, refmodel as rm
from ..core import Failure, Outcome, Stream

LEVEL = "fault_enumeration"
RULE = (
    "case = (Shampoo-eigen | SOAP-eigh | SOAP-QR, tolerance N in 0..3, precondition_frequency 1..3, 2-4 parameters split into 1..k blocks with "
    "1-3 factors each, optional ignored dims, momentum / filtering on or off) x history of steps, each with a gradient-presence mask and an outcome "
    "script (ok | raise | returns-NaN | returns-Inf) per (block, factor) matrix-routine call of that refresh; a second stream injects NaN/Inf into "
    "gradients instead. Non-trivial = at least one injected failure was consumed by a refresh. Class carried_over_mask_change = some block's counter "
    "was non-zero when the presence mask changed (the class in which the pinned tree lost its counters, F3). Distinct = canonical JSON of the history."
)
BOUNDS = "<= 4 parameters, <= 8 blocks, <= 3 factors per block, <= 14 / 30 steps, tolerance 0..3, frequency 1..3"
ASSUMPTIONS = [
    "faults are injected by wrapping the module-level names matrix_inverse_root / matrix_eigenvectors inside shampoo_preconditioner_list (the repository's own tests inject faults the same way)",
    "the order of matrix-routine calls inside one refresh is parameters -> blocks -> factors, restricted to blocks with a gradient",
]
NONTRIVIAL_FLOOR = 20
PL_LOGGER = "distributed_shampoo.utils.shampoo_preconditioner_list"
# "raise" throws before the routine runs; "raise_inner:j" lets the real routine run and makes its j-th call of torch.linalg.eigh / torch.linalg.qr throw
# (a LAPACK failure in the middle of the computation, e.g. in the second orthogonal iteration); whether that call is reached - and whether the
# routine's own double-precision retry absorbs it - is observed, and the model is evaluated afterwards with the set of calls that really failed
OUTCOMES = ["ok", "ok", "ok", "raise", "raise", "nan", "inf", "raise_inner:0", "raise_inner:1", "raise_inner:2"]
INNER_MSG = "injected inner failure"


class _Capture(logging.Handler):
    def __init__(self) -> None:
        super().__init__(level=logging.WARNING)
        self.records: list[str] = []

    def emit(self, record: logging.LogRecord) -> None:
        try:
            self.records.append(record.getMessage())
        except Exception:  # noqa: BLE001
            self.records.append(str(record.msg))


class Runner:
    def __init__(self, config: dict):
        import distributed_shampoo.utils.shampoo_preconditioner_list as pl

        self.pl = pl
        self.config = config
        self.out = Outcome()
        self.dead = False
        cfg = config["cfg"]
        self.cfg = cfg
        self.eff = gen.effective(cfg)
        self.shapes = config["shapes"]
        self.soap = cfg["precond"]["kind"] == "soap"
        self.target = "matrix_eigenvectors" if self.soap else "matrix_inverse_root"
        self.tol = cfg["precond"]["tol"]
        dt = gen.DT[cfg["pdtype"]]
        self.params = gen.make_params(self.shapes, config.get("pseed", 0), dt)
        self.failed_construct: Failure | None = None
        try:
            self.opt = gen.build_optimizer(self.params, cfg)
        except Exception as e:  # noqa: BLE001
            self.opt = None
            self.dead = True
            self.failed_construct = Failure("C13.construct", f"constructor raised {type(e).__name__}", traceback.format_exc()[-1500:])
            return
        # layout: list of (param index, block index, number of factors)
        ignored = cfg["precond"].get("ignored", [])
        self.blocks: list[tuple[int, int, int]] = []
        for pi, s in enumerate(self.shapes):
            md, sls = rm.block_slices(s, self.eff["mpd"], self.eff["merge"])
            for bi, sl in enumerate(sls):
                order = len(md)
                self.blocks.append((pi, bi, len([d for d in range(order) if d not in ignored])))
        self.counter = [0] * len(self.blocks)
        self.t = 0
        self.prev_mask: list[bool] | None = None
        self.carried = [False] * len(self.blocks)  # counter non-zero across a mask change
        self.stats = {"injected": 0, "raises_value": 0, "raises_pve": 0, "tolerated": 0, "carried": 0, "mask_changes": 0, "resets": 0, "refreshes": 0}
        self.poisoned = [False] * len(self.blocks)

    def start(self) -> list[Failure]:
        return [self.failed_construct] if self.failed_construct else []

    # ------------------------------------------------------------------
    def _mats(self, pi: int, bi: int) -> list[torch.Tensor]:
        sh = self.opt.state[self.params[pi]][f"block_{bi}"]["shampoo"]
        return list(sh.factor_matrices_eigenvectors if self.soap else sh.inv_factor_matrices)

    def _factor_index(self, pi: int, bi: int, f: int) -> str:
        return f"{pi}.block_{bi}.{f}"

    def step(self, s: dict) -> list[Failure]:
        if self.dead:
            return []
        fails: list[Failure] = []
        mask = s["mask"]
        outs = s.get("outs", [])
        nan_grad = s.get("nan_grad")  # None | {"param": i, "kind": "nan"|"inf"}
        has = any(mask)
        if self.prev_mask is not None and has and mask != self.prev_mask:
            self.stats["mask_changes"] += 1
            for i, c in enumerate(self.counter):
                if c > 0:
                    self.carried[i] = True
        if has:
            self.prev_mask = list(mask)
        grads = gen.step_grads(self.shapes, s, gen.DT[self.cfg["pdtype"]])
        if nan_grad is not None and grads[nan_grad["param"]] is not None:
            g = grads[nan_grad["param"]]
            if g.numel():
                g.view(-1)[nan_grad.get("pos", 0) % g.numel()] = float("nan") if nan_grad["kind"] == "nan" else float("inf")
                for i, (pi, bi, nf) in enumerate(self.blocks):
                    if pi == nan_grad["param"]:
                        self.poisoned[i] = True  # conservatively: the whole parameter (any block may hold the element)
        for p, g in zip(self.params, grads):
            p.grad = None if g is None else g.clone()
        t_new = self.t + (1 if has else 0)
        refresh = has and rm.is_refresh(t_new, self.eff["start"], self.eff["freq"])
        active = [i for i, (pi, bi, nf) in enumerate(self.blocks) if mask[pi]]
        # ---------------- model (evaluated after the step: a successfully computed root that overflows when cast to the block dtype
        # counts as a non-finite result, which the harness can only know once the real routine has run)
        def model(overflow: set, inner_fired: set = frozenset()) -> tuple:
            expect: str | None = None
            new_counter = list(self.counter)
            plan: list[str] = []
            failed: list[str] = []
            unchanged: list[tuple[int, int, int]] = []
            refreshed: list[tuple[int, int, int, int]] = []
            call = 0
            if refresh:
                for i in active:
                    pi, bi, nf = self.blocks[i]
                    block_out = []
                    stop = False
                    for f in range(nf):
                        o = outs[call] if call < len(outs) else "ok"
                        if o.startswith("raise_inner"):
                            o = "raise" if call in inner_fired else "ok"
                        if o == "ok" and call in overflow:
                            o = "inf"
                        plan.append(o)
                        block_out.append(o)
                        if o in ("nan", "inf"):
                            expect = "pve"
                            call += 1
                            stop = True
                            break
                        if o == "raise":
                            failed.append(self._factor_index(pi, bi, f))
                            unchanged.append((pi, bi, f))
                        else:
                            refreshed.append((pi, bi, f, call))
                        call += 1
                    if stop:
                        break
                    if nf == 0:
                        new_counter[i] = 0  # empty success tracker: all([]) is a success
                        continue
                    if all(o == "ok" for o in block_out):
                        new_counter[i] = 0
                    else:
                        new_counter[i] += 1
                        if new_counter[i] > self.tol:
                            expect = "value"
                            break
            return expect, new_counter, plan, failed, unchanged, refreshed

        if refresh:
            self.stats["refreshes"] += 1
        poisoned_active = any(self.poisoned[i] and self.blocks[i][2] > 0 for i in active)
        # ---------------- run
        real = getattr(self.pl, self.target)
        state = {"i": 0, "results": {}, "overflow": set(), "inner_fired": set()}
        pdt = gen.DT[self.cfg["pdtype"]]

        def fake(*a: Any, **k: Any) -> torch.Tensor:
            i = state["i"]
            state["i"] += 1
            o = outs[i] if (refresh and i < len(outs)) else "ok"
            if o == "raise":
                raise RuntimeError("injected failure")
            if o.startswith("raise_inner"):
                j, cnt = int(o.split(":")[1]), {"n": 0}

                def wrap(fn: Any) -> Any:
                    def w(*aa: Any, **kk: Any) -> Any:
                        n = cnt["n"]
                        cnt["n"] += 1
                        if n == j:
                            raise RuntimeError(INNER_MSG)
                        return fn(*aa, **kk)
                    return w

                try:
                    with mock.patch.object(torch.linalg, "eigh", wrap(torch.linalg.eigh)), mock.patch.object(torch.linalg, "qr", wrap(torch.linalg.qr)):
                        r = real(*a, **k)
                except Exception as e:  # noqa: BLE001
                    if INNER_MSG in str(e) or (e.__cause__ is not None and INNER_MSG in str(e.__cause__)) or (e.__context__ is not None and INNER_MSG in str(e.__context__)):
                        state["inner_fired"].add(i)
                    raise
                o = "ok"
            else:
                r = real(*a, **k)
            if o in ("nan", "inf"):
                r = r.clone(memory_format=torch.contiguous_format)
                if r.numel():
                    r.view(-1)[0] = float("nan") if o == "nan" else float("inf")
            state["results"][i] = r.detach().clone()
            if o == "ok" and not self.soap and not bool(torch.isfinite(r.detach().to(pdt)).all()):
                state["overflow"].add(i)
            return r

        before_params = [p.detach().clone() for p in self.params]
        before_mats = {(pi, bi): [m.detach().clone() for m in self._mats(pi, bi)] for (pi, bi, nf) in self.blocks}
        cap = _Capture()
        lg = logging.getLogger(PL_LOGGER)
        old_level, old_disabled = lg.level, lg.disabled
        lg.addHandler(cap)
        lg.setLevel(logging.WARNING)
        lg.disabled = False
        got: str | None = None
        err = ""
        emsg = ""
        try:
            with mock.patch.object(self.pl, self.target, fake):
                self.opt.step()
        except Exception as e:  # noqa: BLE001
            name = type(e).__name__
            got = "pve" if name == "PreconditionerValueError" else ("value" if type(e) is ValueError else f"other:{name}")
            err = "".join(traceback.format_exception_only(type(e), e))[-400:]
            emsg = str(e)[:300]
            if got.startswith("other"):
                err = traceback.format_exc()[-2500:]
        finally:
            lg.removeHandler(cap)
            lg.setLevel(old_level)
            lg.disabled = old_disabled
        expect, new_counter, plan, expect_failed_factors, expect_unchanged, expect_refreshed = model(state["overflow"], state["inner_fired"])
        if state["inner_fired"]:
            self.out.classes.append("failure_inside_the_matrix_routine")
        if any(self.carried[i] and self.counter[i] > 0 for i in active) and refresh:
            self.stats["carried"] += 1
        if any(c == 0 and o > 0 for c, o in zip(new_counter, self.counter)):
            self.stats["resets"] += 1
        if state["overflow"]:
            self.out.classes.append("root_overflows_block_dtype")
        self.stats["injected"] += sum(1 for o in plan[: state["i"]] if o != "ok")
        where = f"step t={t_new} refresh={refresh} mask={mask} plan={plan} counters={self.counter} tol={self.tol}"
        # ---------------- oracle
        if nan_grad is not None or any(self.poisoned):
            # NaN/Inf gradient stream: a refresh with a poisoned active block must raise PreconditionerValueError;
            # parameters of the group must be unmodified by that step; nothing is claimed for non-refresh steps.
            if refresh and poisoned_active and expect is None:
                expect = "pve"
        if got == "pve" and expect != "pve" and "in factor matrix" in emsg and self._factor_overflow_expected(before_params, grads):
            # half-precision parameters left the finite range in an earlier (non-raising) step, or the Gram matrix itself overflows:
            # the documented response; outside the fault model of this check
            self.out.classes.append("overflow_domain")
            self.dead = True
            return fails
        if got != expect:
            fails.append(Failure("C13.model", f"raise behaviour differs from the failure-counter model (expected {expect}, got {got})",
                                 f"{where}\n{err}", got, expect))
            self.dead = True
            return fails
        if got is not None:
            self.stats["raises_pve" if got == "pve" else "raises_value"] += 1
            for pi, (p, b) in enumerate(zip(self.params, before_params)):
                if not rm.bitwise_equal(p.detach(), b):
                    fails.append(Failure("C13.no_param_modified_on_raise", "a parameter was modified by a step that raised", f"{where} param {pi}"))
                    break
        # stored matrices finite after every step, raising or not
        for (pi, bi, nf) in self.blocks:
            for f, m in enumerate(self._mats(pi, bi)):
                if not bool(torch.isfinite(rm.local(m)).all()):
                    fails.append(Failure("C13.stored_finite", "a stored inverse root / eigenbasis is not finite", f"{where} factor {self._factor_index(pi, bi, f)}"))
        if got is None and refresh:
            # tolerated failures: failed factor keeps its previous matrix bitwise, a warning names it, the others are refreshed
            for (pi, bi, f) in expect_unchanged:
                self.stats["tolerated"] += 1
                if not rm.bitwise_equal(rm.local(self._mats(pi, bi)[f]).detach(), before_mats[(pi, bi)][f]):
                    fails.append(Failure("C13.keeps_last_good", "a failed computation did not keep the last successfully computed matrix", f"{where} factor {self._factor_index(pi, bi, f)}"))
            for (pi, bi, f, ci) in expect_refreshed:
                r = state["results"].get(ci)
                m = rm.local(self._mats(pi, bi)[f]).detach()
                if r is None or not rm.bitwise_equal(m, r.to(m.dtype)):
                    fails.append(Failure("C13.others_refreshed", "a successful computation of the same refresh was not stored", f"{where} factor {self._factor_index(pi, bi, f)}"))
            warned = [r for r in cap.records if "Matrix computation failed for factor matrix" in r]
            for idx in expect_failed_factors:
                if not any(f"factor matrix {idx} " in w for w in warned):
                    fails.append(Failure("C13.warning", "no warning naming the failed factor was logged", f"{where} factor {idx} warnings={warned[:3]}"))
            if len(warned) != len(expect_failed_factors):
                fails.append(Failure("C13.warning", "number of failure warnings differs from the number of injected failures", f"{where} warnings={len(warned)} injected={len(expect_failed_factors)}"))
        if got is not None or fails:
            self.dead = True
            return fails
        self.counter = new_counter
        for i, c in enumerate(self.counter):
            if c == 0:
                self.carried[i] = False
        self.t = t_new
        return fails

    def _factor_overflow_expected(self, before_params: list, grads: list) -> bool:
        fmax = 1e-3 * float(torch.finfo(gen.DT[self.cfg["fdtype"]]).max)
        pmax = float(torch.finfo(gen.DT[self.cfg["pdtype"]]).max)
        for w, g in zip(before_params, grads):
            if g is None:
                continue
            g = g.double()
            if self.cfg.get("wd", 0.0) and not self.cfg.get("decoupled", True):
                g = g + self.cfg["wd"] * w.double()
            if not bool(torch.isfinite(g).all()) or float(g.abs().max()) > pmax or float((g * g).sum()) > fmax:
                return True
        return False

    def finish(self) -> Outcome:
        out = self.out
        if self.opt is None:
            return out
        st = self.stats
        out.nontrivial = st["injected"] >= 1 or st["raises_pve"] >= 1
        cl = out.classes
        cl.append("soap_" + self.cfg["precond"].get("method", "") if self.soap else "shampoo")
        cl.append(f"tol{self.tol}")
        if st["carried"]:
            cl.append("carried_over_mask_change")
        if st["raises_value"]:
            cl.append("raised_tolerance_exceeded")
        if st["raises_pve"]:
            cl.append("raised_preconditioner_value_error")
        if st["tolerated"]:
            cl.append("tolerated_failure")
        if st["resets"]:
            cl.append("counter_reset_by_success")
        if st["mask_changes"]:
            cl.append("mask_change")
        if any(nf == 0 for _, _, nf in self.blocks):
            cl.append("block_without_factors")
        if len(self.blocks) > len(self.shapes):
            cl.append("split_params")
        out.sub_evaluations = st["refreshes"]
        return out


# --------------------------------------------------------------------------- strategies
def _config_strategy(nan_stream: bool = False):
    from hypothesis import strategies as st

    @st.composite
    def config(draw: Any) -> dict:
        kind = draw(st.sampled_from(["shampoo", "soap_eigh", "soap_qr"]))
        tol = draw(st.integers(0, 3))
        freq = draw(st.integers(1, 3))
        mpd = draw(st.sampled_from([2, 3, 4, 1024]))
        ignored = draw(st.sampled_from([[], [], [], [0], [1], [0, 1]]))
        if kind == "shampoo":
            pc = {"kind": "shampoo", "solver": draw(st.sampled_from(["eigen", "eigen_stab"])), "mult": 1.0, "ignored": ignored, "tol": tol}
        else:
            pc = {"kind": "soap", "method": kind[5:], "ignored": ignored, "tol": tol}
            if kind == "soap_qr":
                pc["max_it"] = draw(st.integers(1, 3))
                pc["qr_tol"] = 1e-5
        beta1 = draw(st.sampled_from([0.0, 0.9]))
        momentum = draw(st.sampled_from([0.0, 0.5]))
        cfg = {
            "lr": 0.0078125, "beta1": beta1, "beta2": draw(st.sampled_from([1.0, 0.9])), "beta3": -1.0, "epsilon": draw(st.sampled_from([1e-4, 1e-2, 1e-12])),
            "momentum": momentum, "dampening": 0.0, "nesterov": False, "wd": draw(st.sampled_from([0.0, 0.01])), "decoupled": draw(st.booleans()),
            "bias": draw(st.booleans()), "graft": draw(st.sampled_from([None, {"type": "sgd"}, {"type": "adam", "eps": 1e-8, "beta2": 0.99}])),
            "mpd": mpd, "merge": draw(st.booleans()), "freq": freq, "start": draw(st.sampled_from([-1, freq, freq + 1])), "override": (draw(st.sampled_from([0, 0, 1, 2])) if not ignored else 0),
            "precond": pc, "pdtype": draw(st.sampled_from(["f32", "f32", "f64", "f16", "bf16"])), "fdtype": draw(st.sampled_from(["f32", "f32", "f64"])), "gscale": 1.0,
        }
        n = draw(st.integers(2, 4))
        shapes = [draw(st.sampled_from([[3, 2], [2, 2], [4], [2, 3, 2], [5, 3], [2], [1, 3], [6, 2]])) for _ in range(n)]
        if draw(st.booleans()):
            shapes[1] = list(shapes[0])
        if not nan_stream and draw(st.sampled_from([False] * 4 + [True])):
            # forced class: a block that owns no Kronecker factor (all of its dims ignored) stands *before* blocks that do, so that positions in the list
            # of active blocks and positions in the list of blocks with factors differ
            pc["ignored"] = [0]
            cfg["override"], cfg["merge"], cfg["mpd"] = 0, False, max(mpd, 4)
            shapes = [draw(st.sampled_from([[3], [4], [2]]))] + [draw(st.sampled_from([[3, 2], [2, 2], [2, 3, 2]])) for _ in range(draw(st.integers(1, 2)))]
            if draw(st.booleans()):
                shapes.insert(1, draw(st.sampled_from([[3], [2]])))
        return {"cfg": cfg, "shapes": shapes, "pseed": draw(st.integers(0, 10**4)), "nan_stream": nan_stream}

    return config()


def config_strategy():
    return _config_strategy(False)


def config_strategy_cast():
    """Half-precision parameters with inverse roots that exceed the float16 range (rank-deficient factor, epsilon 1e-12, root override 1 or 2):
    the computed root is finite in the factor dtype but not in the block dtype, so the refresh must raise PreconditionerValueError."""
    from hypothesis import strategies as st

    @st.composite
    def config(draw: Any) -> dict:
        c = draw(_config_strategy(False))
        cfg = c["cfg"]
        cfg["pdtype"] = draw(st.sampled_from(["f16", "f16", "bf16"]))
        cfg["precond"] = {"kind": "shampoo", "solver": draw(st.sampled_from(["eigen", "eigen_stab"])), "mult": 1.0, "ignored": [], "tol": cfg["precond"]["tol"]}
        cfg["override"] = draw(st.sampled_from([1, 2, 2, 0]))
        cfg["epsilon"] = draw(st.sampled_from([1e-12, 1e-12, 1e-6]))
        cfg["graft"] = draw(st.sampled_from([None, {"type": "adam", "eps": 1e-3, "beta2": 0.99}]))
        cfg["wd"] = 0.0
        c["shapes"] = [draw(st.sampled_from([[3, 2], [4, 2], [5, 3], [2, 3, 2]])) for _ in range(draw(st.integers(2, 3)))]
        return c

    return config()


def config_strategy_nan():
    return _config_strategy(True)


def step_strategy(runner: Runner):
    from hypothesis import strategies as st

    n = len(runner.shapes)
    ncalls = sum(nf for _, _, nf in runner.blocks)
    prev = runner.prev_mask

    @st.composite
    def step(draw: Any) -> dict:
        factorless = sorted({pi for pi, _, nf in runner.blocks if nf == 0})
        mode = draw(st.sampled_from(["all", "stay", "stay", "flip", "flip", "random", "none"] + (["toggle_factorless"] * 3 if factorless else [])))
        if mode == "stay" and prev is not None:
            mask = list(prev)
        elif mode == "toggle_factorless":
            # a block that never fails itself (it has nothing to compute) enters or leaves the active set between two refreshes of the others
            mask = list(prev) if prev is not None else [True] * n
            i = factorless[draw(st.integers(0, len(factorless) - 1))]
            mask[i] = not mask[i]
            if not any(mask):
                mask[-1] = True
        elif mode == "flip" and prev is not None:
            mask = list(prev)
            i = draw(st.integers(0, n - 1))
            mask[i] = not mask[i]
        elif mode == "none":
            mask = [False] * n
        elif mode == "random":
            mask = [draw(st.booleans()) for _ in range(n)]
        else:
            mask = [True] * n
        s: dict = {"mask": mask, "gseed": draw(st.integers(0, 10**5)), "gkind": "gauss", "gscale": 1.0}
        if runner.config.get("nan_stream"):
            if draw(st.integers(0, 3)) == 0:
                s["nan_grad"] = {"param": draw(st.integers(0, n - 1)), "kind": draw(st.sampled_from(["nan", "inf"])), "pos": draw(st.integers(0, 40))}
        else:
            # failure-prone scripts: one block fails persistently, others sporadically
            kind = draw(st.sampled_from(["clean", "faulty", "faulty", "faulty", "faulty", "poison"]))
            persistent = draw(st.sampled_from([None, 0, 0, 1]))
            outs = []
            for c in range(ncalls):
                outs.append("ok" if kind == "clean" else draw(st.sampled_from(["ok", "ok", "ok", "raise", "raise", "raise_inner:0", "raise_inner:1", "raise_inner:2"])))
            if persistent is not None and ncalls and kind != "clean":
                outs[persistent % ncalls] = draw(st.sampled_from(["raise", "raise", "raise_inner:1"]))
            if kind == "poison" and ncalls:
                outs[draw(st.integers(0, ncalls - 1))] = draw(st.sampled_from(["nan", "inf"]))
            s["outs"] = outs
        return s

    return step()


STREAMS = {
    "faults": Stream("faults", machine=(config_strategy, step_strategy, Runner), quick=2400, thorough=24000, shards_quick=16, shards_thorough=16,
                     max_steps=14, max_steps_thorough=30),
    "cast_overflow": Stream("cast_overflow", machine=(config_strategy_cast, step_strategy, Runner), quick=400, thorough=4000, shards_quick=8, shards_thorough=16,
                            max_steps=8, max_steps_thorough=16),
    "nan_gradients": Stream("nan_gradients", machine=(config_strategy_nan, step_strategy, Runner), quick=600, thorough=6000, shards_quick=8, shards_thorough=16,
                            max_steps=10, max_steps_thorough=20),
}
