"""C15 - shard-to-tensor-block recovery yields the fewest valid sub-tensors, as views.

Oracle: an independent dynamic program over cut positions gives the minimum number of valid slabs;
predicates check view-ness, ordered partition, slab validity and shape; FSDP and HSDP copies are
compared differentially.  The finite sub-domain (all shapes with bounded numel, all ranges) is
enumerated completely; beyond it Hypothesis draws shapes up to order 5 / dims up to 12.
"""
from __future__ import annotations

import itertools
import math
from typing import Any, Iterator

import torch

from ..core import Outcome, Stream, call_sut

LEVEL = "exploration"
RULE = (
    "case = (original shape, start, end, storage offset of the shard, dtype); exhaustive stream enumerates every shape of "
    "order 0..5 with numel <= 24 (quick) / 48 (thorough) and every 0 <= start <= end <= numel; random stream draws order <= 5, "
    "dims <= 12. Non-trivial = order >= 2 and start or end is not a multiple of prod(shape[1:]) (the shard starts or ends "
    "mid-row). Distinct = distinct (shape, start, end, offset, dtype)."
)
BOUNDS = "order 0..5; exhaustive numel<=24/48 plus zero-size shapes; random dims<=64, numel<=20000, DP oracle for range length<=4000; huge_boundaries: every slab size 2..1100 at ~3.5M elements, ranges ending on slab boundaries; virtual_huge: shapes of up to 2^40 elements (never materialised), shards of <= 200k elements around slab boundaries"
ASSUMPTIONS = [
    "torch.Tensor.untyped_storage().data_ptr()/storage_offset() faithfully report aliasing",
    "the DP oracle (own code) enumerates every slab k x shape[d+1:] inside one index of dims<d",
]
NONTRIVIAL_FLOOR = 50


def _impls():
    from distributed_shampoo.utils.shampoo_fsdp_distributor import FSDPDistributor
    from distributed_shampoo.utils.shampoo_hsdp_distributor import HSDPDistributor

    return FSDPDistributor._split_tensor_block_recovery, HSDPDistributor._split_tensor_block_recovery


# ----------------------------------------------------------------------------- reference
def slab_dim(shape: tuple[int, ...], a: int, b: int) -> int | None:
    """Smallest d such that [a,b) is a slab k x shape[d+1:] inside a single index of dims < d (k >= 1)."""
    n = len(shape)
    if n == 0:
        return 0 if (a, b) == (0, 1) else None
    for d in range(n):
        s = math.prod(shape[d + 1:])
        outer = math.prod(shape[d:])
        if b > a and a % s == 0 and b % s == 0 and a // outer == (b - 1) // outer:
            return d
    return None


def min_pieces(shape: tuple[int, ...], start: int, end: int) -> int:
    """Minimum number of valid slabs partitioning [start, end) in order (forward DP over cut positions)."""
    if end == start:
        return 0
    if len(shape) == 0:
        return 1
    L = end - start
    INF = 10**9
    best = [INF] * (L + 1)
    best[0] = 0
    sizes = [(math.prod(shape[d + 1:]), math.prod(shape[d:])) for d in range(len(shape))]
    for i in range(L):
        if best[i] >= INF:
            continue
        a = start + i
        c = best[i] + 1
        for s, outer in sizes:
            if a % s:
                continue
            lim = min(end, (a // outer + 1) * outer)
            b = a + s
            while b <= lim:
                j = b - start
                if c < best[j]:
                    best[j] = c
                b += s
    return best[L]


def reference_cuts(shape: tuple[int, ...], start: int, end: int) -> list[tuple[int, int, tuple[int, ...]]]:
    """Constructive decomposition written from the docstring: per dimension, outermost first, split off all
    complete slices, recurse into the two ragged ends. Returns [(a, b, tensor shape)] (used by C07's oracle)."""
    out: list[tuple[int, int, tuple[int, ...]]] = []

    def rec(a: int, b: int, d: int) -> None:
        if a == b:
            return
        if len(shape) == 0 or d >= len(shape) - 1:
            out.append((a, b, (b - a,)))
            return
        s = math.prod(shape[d + 1:])
        lo = -(-a // s) * s
        hi = b // s * s
        if lo < hi:
            rec(a, lo, d + 1)
            out.append((lo, hi, ((hi - lo) // s, *shape[d + 1:])))
            rec(hi, b, d + 1)
        elif lo > hi:
            rec(a, b, d + 1)
        else:  # lo == hi: the range straddles one boundary (or touches it)
            rec(a, lo, d + 1)
            rec(hi, b, d + 1)

    rec(start, end, 0)
    return out


# ----------------------------------------------------------------------------- oracle
DTYPES = {"f32": torch.float32, "f64": torch.float64, "bf16": torch.bfloat16, "i64": torch.int64}


def oracle(case: dict) -> Outcome:
    out = Outcome()
    shape = tuple(case["shape"])
    start, end, off = case["start"], case["end"], case.get("offset", 0)
    dtype = DTYPES[case.get("dtype", "f32")]
    numel = math.prod(shape)
    fsdp, hsdp = _impls()
    step = int(case.get("stride", 1))
    if numel == 0:
        # a shape with a zero-size dimension (nn.Linear(0, k), an expert that owns no rows): its only range is the empty one -> no blocks, no error
        out.classes += ["zero_size_shape", "empty_range", f"order{len(shape)}"]
        out.nontrivial = True
        empty = torch.empty(0, dtype=dtype)
        for name, fn in (("fsdp", fsdp), ("hsdp", hsdp)):
            ok, r = call_sut(out, "C15.call", f"{name.upper()}._split_tensor_block_recovery (zero-size shape)", lambda fn=fn: fn(empty, torch.Size(shape), 0, 0))
            if ok and len(r) != 0:
                out.fail("C15.v.empty", f"{name}: empty range yields blocks", observed=[tuple(t.shape) for t in r])
        return out
    if case.get("virtual"):
        # the original tensor is never materialised: only the shard (the elements start..end-1 of a tensor with billions of elements) exists,
        # as it does on a real rank; element values are positions relative to the shard start
        buf = torch.arange(-off, (end - start) + 3 - off, dtype=torch.float64).to(dtype)
        shard = buf.narrow(0, off, end - start)
    elif step == 1:
        base = torch.arange(-off, numel + 3 - off, dtype=torch.float64).to(dtype) if off else torch.arange(0, numel + 3, dtype=torch.float64).to(dtype)
        # shard holds the values start..end-1 (exactly representable for the sizes used) and sits at storage offset off+start
        shard = base.narrow(0, off + start, end - start) if off else base.narrow(0, start, end - start)
    else:
        # a 1-D shard that is itself a strided view (every step-th element of a larger buffer): still a flat tensor holding start..end-1
        buf = torch.full(((numel + 3 + off) * step,), -1.0, dtype=torch.float64).to(dtype)
        lane = buf[off::step][: numel + 3]
        lane.copy_(torch.arange(0, numel + 3, dtype=torch.float64).to(dtype))
        shard = lane.narrow(0, start, end - start)
    expect_vals = shard.clone()
    ok1, r1 = call_sut(out, "C15.call", "FSDP._split_tensor_block_recovery", lambda: fsdp(shard, torch.Size(shape), start, end))
    ok2, r2 = call_sut(out, "C15.call", "HSDP._split_tensor_block_recovery", lambda: hsdp(shard, torch.Size(shape), start, end))
    out.nontrivial = len(shape) >= 2 and (start % math.prod(shape[1:]) != 0 or end % math.prod(shape[1:]) != 0)
    out.classes.append(f"order{len(shape)}")
    if end == start:
        out.classes.append("empty_range")
    if not (ok1 and ok2):
        return out
    for name, r in (("fsdp", r1), ("hsdp", r2)):
        if not isinstance(r, (list, tuple)) or not all(isinstance(t, torch.Tensor) for t in r):
            out.fail("C15.type", f"{name}: result is not a list of tensors", observed=repr(type(r)))
            return out
    # (vi) both copies agree
    sig1 = [(tuple(t.shape), t.storage_offset()) for t in r1]
    sig2 = [(tuple(t.shape), t.storage_offset()) for t in r2]
    if sig1 != sig2:
        out.fail("C15.vi.copies_agree", "FSDP and HSDP results differ", observed=sig1, expected=sig2)
    for name, r in (("fsdp", r1), ("hsdp", r2)):
        # (v) empty range
        if end == start:
            if len(r) != 0:
                out.fail("C15.v.empty", f"{name}: empty range yields blocks", observed=[tuple(t.shape) for t in r])
            continue
        pos = start
        for t in r:
            k = t.numel()
            a, b = pos, pos + k
            pos = b
            # (i) view of the shard: same storage, expected byte position, contiguous
            if t.untyped_storage().data_ptr() != shard.untyped_storage().data_ptr():
                out.fail("C15.i.view", f"{name}: block does not share the shard's storage")
                break
            if t.storage_offset() != shard.storage_offset() + (a - start) * shard.stride(0) or (step == 1 and not t.is_contiguous()):
                out.fail("C15.ii.partition", f"{name}: block is not the next piece of the shard (storage offset / layout)",
                         observed=[t.storage_offset(), list(t.stride())], expected=shard.storage_offset() + (a - start) * shard.stride(0))
                break
            if k == 0:
                out.fail("C15.iii.slab", f"{name}: empty block returned")
                break
            # (iii) valid slab, with the slab's shape
            d = slab_dim(shape, a, b)
            if d is None:
                out.fail("C15.iii.slab", f"{name}: piece is not a slab inside one index of the leading dims",
                         observed=[a, b], expected=list(shape))
                break
            if len(shape) == 0:
                shape_ok = t.numel() == 1
            else:
                shape_ok = any(
                    tuple(t.shape) == ((b - a) // math.prod(shape[dd + 1:]), *shape[dd + 1:])
                    and a % math.prod(shape[dd + 1:]) == 0 and a // math.prod(shape[dd:]) == (b - 1) // math.prod(shape[dd:])
                    for dd in range(len(shape))
                )
            if not shape_ok:
                out.fail("C15.iii.shape", f"{name}: piece shape is not (k, *shape[d+1:])", observed=list(t.shape), expected=list(shape))
                break
        else:
            if pos != end:
                out.fail("C15.ii.partition", f"{name}: pieces do not cover the range", observed=pos, expected=end)
            # (ii) contents, in order
            flat = torch.cat([t.reshape(-1) for t in r]) if r else torch.empty(0, dtype=dtype)
            if not torch.equal(flat, expect_vals):
                out.fail("C15.ii.partition", f"{name}: concatenated pieces differ from the shard")
            # (iv) minimal number of pieces
            if end - start <= 4000:
                mp = min_pieces(shape, start, end)
                if len(r) != mp:
                    out.fail("C15.iv.minimal", f"{name}: {len(r)} pieces but {mp} suffice" if len(r) > mp else f"{name}: fewer pieces than the DP minimum (oracle or slab check broken)",
                             observed=[tuple(t.shape) for t in r], expected=mp)
            ref = reference_cuts(shape, start, end)
            if [(a_, b_) for a_, b_, _ in ref] != _cuts(r, start):
                out.classes.append("cuts_differ_from_constructive_reference")
    # writes through every returned block reach the shard at the block's position (never copies)
    if end > start and not out.failures and shard.dtype.is_floating_point:
        for name, r in (("fsdp", r1), ("hsdp", r2)):
            pos = 0
            for bi, t in enumerate(r):
                k = t.numel()
                t.fill_(-7.0 - bi)
                seg = shard.narrow(0, pos, k)
                if not bool((seg == -7.0 - bi).all()):
                    out.fail("C15.i.view", f"{name}: writing to a returned block does not modify the shard (the block is a copy)", f"block {bi} shape {list(t.shape)} shard stride {shard.stride(0)}")
                    break
                pos += k
        if step != 1:
            out.classes.append("strided_shard")
    return out


def _cuts(r: list[torch.Tensor], start: int) -> list[tuple[int, int]]:
    res = []
    pos = start
    for t in r:
        res.append((pos, pos + t.numel()))
        pos += t.numel()
    return res


def oracle_reject(case: dict) -> Outcome:
    """A non-flat shard is rejected with ValueError by both copies."""
    out = Outcome()
    shape = tuple(case["shape"])
    shard_shape = tuple(case["shard_shape"])
    numel = math.prod(shard_shape)
    out.nontrivial = True
    out.classes.append(f"shard_order{len(shard_shape)}")
    for name, f in zip(("fsdp", "hsdp"), _impls()):
        t = torch.arange(numel, dtype=torch.float32).reshape(shard_shape)
        try:
            f(t, torch.Size(shape), 0, numel)
        except ValueError:
            continue
        except Exception as e:  # noqa: BLE001
            out.fail("C15.v.reject", f"{name}: non-flat shard raises {type(e).__name__} instead of ValueError")
            continue
        out.fail("C15.v.reject", f"{name}: non-flat shard accepted", observed=list(shard_shape))
    return out


# ----------------------------------------------------------------------------- generators
def _shapes(max_numel: int, max_order: int = 5, max_dim: int = 8) -> list[tuple[int, ...]]:
    res: list[tuple[int, ...]] = [()]

    def rec(prefix: tuple[int, ...], prod: int) -> None:
        if len(prefix) >= 1:
            res.append(prefix)
        if len(prefix) == max_order:
            return
        for d in range(1, max_dim + 1):
            if prod * d > max_numel:
                break
            # orders 4-5: keep dims small so the space stays enumerable
            if len(prefix) >= 3 and d > 3:
                break
            rec(prefix + (d,), prod * d)

    rec((), 1)
    return res


def enumerate_cases(tier: str, i: int, n: int) -> Iterator[dict]:
    max_numel = 24 if tier == "quick" else 48
    shapes = _shapes(max_numel)
    if i == 0:
        for zshape in [(0,), (0, 3), (3, 0), (2, 0, 2), (0, 0), (1, 0), (0, 1), (2, 3, 0), (0, 2, 3), (1, 1, 0, 2), (2, 2, 2, 2, 0)]:
            yield {"shape": list(zshape), "start": 0, "end": 0, "offset": 0, "dtype": "f32", "stride": 1}
    for idx, shape in enumerate(shapes):
        if idx % n != i:
            continue
        numel = math.prod(shape)
        off = (idx % 3)  # 0, 1 or 2 elements of storage offset: the shard is itself a view
        for start in range(numel + 1):
            for end in range(start, numel + 1):
                yield {"shape": list(shape), "start": start, "end": end, "offset": off, "dtype": "f32", "stride": 1 + (start + end + idx) % 2 * (idx % 3 == 1)}


def enumerate_huge(tier: str, i: int, n: int) -> Iterator[dict]:
    """Tensors of a few million elements whose range ends exactly on a slab boundary far into the tensor, for *every* trailing slab size 2..1100
    (2-D shapes (M, s); in the thorough tier also 3-D shapes whose trailing dims multiply to s): index arithmetic beyond 2^20 elements."""
    target = 3_500_000
    idx = 0
    for s_ in range(2, 1101):
        idx += 1
        if idx % n != i:
            continue
        M = target // s_
        shapes = [[M, s_]]
        if tier != "quick":
            for a in (2, 3, 7):
                if s_ % a == 0 and s_ // a > 1:
                    shapes.append([M, a, s_ // a])
                    break
        for shape in shapes:
            ms = [M - 1, (M * 7) // 10] if tier == "quick" else [M - 1, M - 2, (M * 7) // 10, M // 3 + 1]
            for k, m in enumerate(ms):
                start = 0 if k % 2 == 0 else (m // 2) * s_ + 1
                yield {"shape": shape, "start": start, "end": m * s_, "offset": 0, "dtype": "f32", "stride": 1, "huge": True}


def strategy_virtual():
    """Shapes whose element counts / trailing products pass 2^31 .. 2^40 (never materialised) with ranges of at most ~200k elements placed around
    slab boundaries of every level: index arithmetic beyond 32-bit integers and beyond float64's exact integers is not reachable with real tensors."""
    from hypothesis import strategies as st

    @st.composite
    def cases(draw: Any) -> dict:
        order = draw(st.integers(2, 5))
        shape = [draw(st.sampled_from([2, 3, 3, 5, 7])) for _ in range(order)]
        # blow up one or two dimensions so that prod(shape[1:]) crosses 2^31 .. 2^40
        big = draw(st.sampled_from([70000, 65536, 2**20 + 1, 1560 * 40, 46341, 2**16 + 3]))
        pos = draw(st.integers(0, order - 1))
        shape[pos] = big
        if draw(st.booleans()):
            pos2 = draw(st.integers(0, order - 1))
            shape[pos2] = max(shape[pos2], draw(st.sampled_from([40000, 2**15, 52 * 30 * 40])))
        numel = math.prod(shape)
        # a boundary of some level, far into the tensor
        d = draw(st.integers(0, order - 1))
        slab = math.prod(shape[d + 1:])
        nsl = numel // slab
        m = draw(st.one_of(st.integers(1, max(1, nsl - 1)), st.sampled_from([1, max(1, nsl // 2), max(1, nsl - 1)])))
        boundary = min(numel, m * slab)
        length = draw(st.integers(1, 200000))
        a = draw(st.integers(0, length))
        start = max(0, boundary - a)
        end = min(numel, start + length)
        return {"shape": shape, "start": start, "end": end, "offset": draw(st.integers(0, 2)), "stride": 1, "dtype": "f32", "virtual": True}

    return cases()


def strategy():
    from hypothesis import strategies as st

    @st.composite
    def cases(draw: Any) -> dict:
        order = draw(st.integers(0, 5))
        shape = []
        prod = 1
        for _ in range(order):
            d = draw(st.one_of(st.integers(1, 12), st.sampled_from([1, 2, 3, 7, 12]), st.integers(1, 64)))
            if prod * d > 20000:
                d = 1
            shape.append(d)
            prod *= d
        if shape and draw(st.sampled_from([False] * 11 + [True])):
            shape[draw(st.integers(0, len(shape) - 1))] = 0
            return {"shape": shape, "start": 0, "end": 0, "offset": 0, "stride": 1, "dtype": draw(st.sampled_from(["f32", "f64", "bf16", "i64"]))}
        numel = prod
        # boundaries biased towards multiples of slice sizes +-1
        specials = {0, numel}
        for d in range(len(shape)):
            s = math.prod(shape[d + 1:])
            for m in (1, 2, shape[d] - 1, shape[d]):
                for dlt in (-1, 0, 1):
                    v = m * s + dlt
                    if 0 <= v <= numel:
                        specials.add(v)
        pick = st.one_of(st.integers(0, numel), st.sampled_from(sorted(specials)))
        a, b = draw(pick), draw(pick)
        start, end = min(a, b), max(a, b)
        return {"shape": shape, "start": start, "end": end, "offset": draw(st.integers(0, 3)), "stride": draw(st.sampled_from([1, 1, 1, 2, 3])),
                "dtype": draw(st.sampled_from(["f32", "f64", "bf16", "i64"])) if numel < 250 else draw(st.sampled_from(["f32", "f64", "i64"]))}

    return cases()


def strategy_reject():
    from hypothesis import strategies as st

    return st.fixed_dictionaries({
        "shape": st.lists(st.integers(1, 5), min_size=0, max_size=4),
        "shard_shape": st.one_of(st.lists(st.integers(1, 4), min_size=2, max_size=4), st.just([])),
    })


STREAMS = {
    "exhaustive": Stream("exhaustive", oracle=oracle, enumerate=enumerate_cases, exhaustive=True, shards_quick=16, shards_thorough=16),
    "huge_boundaries": Stream("huge_boundaries", oracle=oracle, enumerate=enumerate_huge, exhaustive=True, shards_quick=16, shards_thorough=16),
    "virtual_huge": Stream("virtual_huge", oracle=oracle, strategy=strategy_virtual, quick=600, thorough=12000, shards_quick=8, shards_thorough=16),
    "random": Stream("random", oracle=oracle, strategy=strategy, quick=4000, thorough=60000, shards_quick=8, shards_thorough=16),
    "reject": Stream("reject", oracle=oracle_reject, strategy=strategy_reject, quick=200, thorough=2000, shards_quick=1, shards_thorough=2),
}
