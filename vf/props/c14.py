"""C14 - block-to-rank assignment: deterministic balanced partition, disjoint buffers.

Streams
  assign      : Hypothesis lists of block byte sizes (ties, equal-after-alignment values) x group sizes 1..16, for each of the three
                copies (DDP / HSDP / HybridShard) of _distribute_buffer_sizes called unbound on a stub that only carries the group size.
                Oracles: (a) exact agreement with a naive largest-first / least-loaded / lowest-rank-on-ties reference (no heap);
                (b) independent predicates: one rank per block, 64-byte alignment, spread <= largest block, makespan <= (4/3 - 1/(3m)) OPT
                with the exact optimum from branch and bound for <= 11 blocks; the three copies agree.
  assign_grid : exhaustive - all multisets of <= 6 sizes from a 9-value palette x group sizes 1..4.
  buffers     : _split_local_dist_buffers (three copies) on real int8 buffers: each view inside its owner's segment, exactly the aligned
                size, pairwise disjoint.
  worlds      : (simulator) typed views, owner segments, identical assignment on all ranks, state ownership partition - see vf/sim.py.
"""
from __future__ import annotations

import itertools
import types
from typing import Any, Iterator

import torch

from ..core import Outcome, Stream, call_sut

LEVEL = "exploration"
RULE = (
    "assign: case = (list of 1-40 block byte sizes from 1..4096 with forced ties / equal-after-alignment values, group size 1..16). "
    "Non-trivial = >= 2 blocks and group size >= 2. assign_grid enumerates all multisets of <= 6 sizes from {1,63,64,65,128,129,192,1000,4096} x "
    "group sizes 1..4 (exhaustive). buffers: same generator, checks the byte views. Distinct = (sizes, group size)."
)
BOUNDS = "<= 40 blocks, byte sizes <= 4096 (random) and up to 2^33 on the pure size functions; exact optimum computed for <= 11 blocks; group sizes 1..16"
ASSUMPTIONS = ["the three methods only read the group-size attribute of self (checked: they run on a stub carrying nothing else)"]
NONTRIVIAL_FLOOR = 50
ALIGN = 64
PALETTE = [1, 63, 64, 65, 128, 129, 192, 1000, 4096]


def _copies():
    from distributed_shampoo.utils.shampoo_ddp_distributor import DDPDistributor
    from distributed_shampoo.utils.shampoo_hsdp_distributor import HSDPDistributor
    from distributed_shampoo.utils.shampoo_hybrid_shard_distributor import HybridShardDistributor

    return (("ddp", DDPDistributor, "_group_size"), ("hsdp", HSDPDistributor, "_dist_group_size"), ("hybrid", HybridShardDistributor, "_dist_group_size"))


# --------------------------------------------------------------------------- reference
def ref_assign(sizes: list[int], m: int) -> tuple[tuple[int, int], ...]:
    al = [(s + ALIGN - 1) // ALIGN * ALIGN for s in sizes]
    order = sorted(range(len(al)), key=lambda i: -al[i])  # stable: ties keep index order
    load = [0] * m
    out: list[Any] = [None] * len(al)
    for i in order:
        r = min(range(m), key=lambda j: (load[j], j))
        load[r] += al[i]
        out[i] = (al[i], r)
    return tuple(out)


def opt_makespan(al: list[int], m: int) -> int:
    al = sorted(al, reverse=True)
    best = [sum(al)]
    load = [0] * m
    lb = max(max(al), -(-sum(al) // m))

    def rec(i: int) -> None:
        if best[0] == lb:
            return
        if i == len(al):
            best[0] = min(best[0], max(load))
            return
        seen = set()
        for j in range(m):
            if load[j] in seen:
                continue
            seen.add(load[j])
            if load[j] + al[i] < best[0]:
                load[j] += al[i]
                rec(i + 1)
                load[j] -= al[i]

    rec(0)
    return best[0]


# --------------------------------------------------------------------------- oracles
def oracle_assign(case: dict) -> Outcome:
    out = Outcome()
    sizes, m = list(case["sizes"]), case["m"]
    out.nontrivial = len(sizes) >= 2 and m >= 2
    results = {}
    for name, cls, attr in _copies():
        stub = types.SimpleNamespace(**{attr: m})
        ok, r = call_sut(out, "C14.call", f"{name}._distribute_buffer_sizes", lambda: cls._distribute_buffer_sizes(stub, tuple(sizes)))
        if not ok:
            return out
        results[name] = tuple(tuple(x) for x in r)
    ref = ref_assign(sizes, m)
    for name, r in results.items():
        if r != ref:
            out.fail("C14.a.reference", f"{name}: assignment differs from largest-first / least-loaded / lowest-rank reference", f"sizes={sizes} m={m}", list(r), list(ref))
    if len({r for r in results.values()}) != 1:
        out.fail("C14.b.copies_agree", "the three copies of the assignment disagree", f"sizes={sizes} m={m}")
    r = results["ddp"]
    if len(r) != len(sizes):
        out.fail("C14.b.one_rank_per_block", "number of assignments differs from the number of blocks")
        return out
    for s, (a, rk) in zip(sizes, r):
        if not (isinstance(rk, int) and 0 <= rk < m):
            out.fail("C14.b.one_rank_per_block", "rank out of range", f"{rk} not in [0,{m})")
            return out
        if a < s or a % ALIGN != 0 or a - s >= ALIGN:
            out.fail("C14.b.alignment", "aligned size is not the smallest multiple of 64 >= size", f"size {s} aligned {a}")
    load = [sum(a for a, rk in r if rk == j) for j in range(m)]
    if r:
        mx = max(a for a, _ in r)
        if max(load) - min(load) > mx:
            out.fail("C14.b.spread", "difference between two ranks' loads exceeds the largest block", f"loads {load} largest {mx}")
        if len(sizes) <= 11:
            o = opt_makespan([a for a, _ in r], m)
            if 3 * m * max(load) > (4 * m - 1) * o:
                out.fail("C14.b.four_thirds", "most loaded rank exceeds (4/3 - 1/(3m)) of the optimum", f"max load {max(load)} OPT {o} m {m}")
            out.metric("makespan_over_opt", max(load) / o)
            out.classes.append("exact_opt_checked")
    al = [a for a, _ in r]
    if len(set(al)) < len(al):
        out.classes.append("ties")
    if len(sizes) < m:
        out.classes.append("fewer_blocks_than_ranks")
    return out


def oracle_buffers(case: dict) -> Outcome:
    out = Outcome()
    sizes, m = list(case["sizes"]), case["m"]
    out.nontrivial = len(sizes) >= 2 and m >= 2
    bsr = ref_assign(sizes, m)
    load = [sum(a for a, rk in bsr if rk == j) for j in range(m)]
    mx = max(load)
    pad = case.get("pad", 0) * ALIGN  # the real caller gives every rank max(load) bytes; extra slack must be harmless
    seg = mx + pad
    if seg * m > 64 * 1024 * 1024:
        out.classes.append("skipped_too_large")
        return out
    for name, cls, _ in _copies():
        buf = torch.zeros(seg * m, dtype=torch.int8)
        local = torch.split(buf, seg) if seg > 0 else tuple(buf for _ in range(m))
        ok, views = call_sut(out, "C14.c.call", f"{name}._split_local_dist_buffers", lambda: cls._split_local_dist_buffers(bsr, tuple(local)))
        if not ok:
            continue
        if len(views) != len(bsr):
            out.fail("C14.c.count", f"{name}: number of views differs from the number of blocks")
            continue
        iv = []
        for (a, rk), v in zip(bsr, views):
            if v.untyped_storage().data_ptr() != buf.untyped_storage().data_ptr():
                out.fail("C14.c.view", f"{name}: a block buffer is not a view of the gather buffer")
                break
            off = v.storage_offset()
            if v.numel() != a:
                out.fail("C14.c.size", f"{name}: view size differs from the aligned block size", f"{v.numel()} vs {a}")
                break
            if not (rk * seg <= off and off + a <= (rk + 1) * seg):
                out.fail("C14.c.owner_segment", f"{name}: view lies outside its owner's segment", f"rank {rk} offset {off} size {a} segment {seg}")
                break
            iv.append((off, off + a))
        iv.sort()
        if any(x[1] > y[0] for x, y in zip(iv, iv[1:])):
            out.fail("C14.c.disjoint", f"{name}: two block views overlap")
    return out


# --------------------------------------------------------------------------- generators
def strategy():
    from hypothesis import strategies as st

    size = st.one_of(st.integers(1, 4096), st.sampled_from([64, 128, 65, 63, 1, 4096, 127, 129, 192]), st.integers(1, 130), st.integers(1, 2**22),
                     st.sampled_from([2**20, 2**20 + 1, 4 * 1024 * 1024, 4 * 1024 * 1024 - 63]),
                     st.integers(2**24, 2**33), st.sampled_from([2**24 + 1, 2**25 + 65, 2**26 + 4, 67141636, 2**31 - 1, 2**31 + 1, 2**32 + 63]))
    return st.fixed_dictionaries({
        "sizes": st.one_of(st.lists(size, min_size=1, max_size=12), st.lists(size, min_size=1, max_size=40), st.lists(st.sampled_from([64, 100, 128]), min_size=2, max_size=16)),
        "m": st.one_of(st.integers(1, 16), st.sampled_from([2, 3, 4, 8])),
        "pad": st.sampled_from([0, 0, 1]),
    })


def enumerate_grid(tier: str, i: int, n: int) -> Iterator[dict]:
    idx = 0
    for k in range(1, 7 if tier == "thorough" else 6):
        for combo in itertools.combinations_with_replacement(PALETTE, k):
            for perm_seed in (0, 1):
                sizes = list(combo) if perm_seed == 0 else list(reversed(combo))
                for m in (1, 2, 3, 4):
                    idx += 1
                    if idx % n == i:
                        yield {"sizes": sizes, "m": m}


# --------------------------------------------------------------------------- (d) simulated worlds: typed views, segments, ownership partition
def strategy_worlds():
    from hypothesis import strategies as st

    from . import c06, c07, c08

    return st.one_of(c06.strategy(), c07.strategy().filter(lambda c: c["flavour"] == "hsdp"), c08.strategy().filter(lambda c: c["flavour"] == "hybrid_shard"))


def oracle_worlds(case: dict) -> Outcome:
    from .. import dist_common as dc

    case = dict(case)
    case["steps"] = case["steps"][:2]  # the layout is fixed at construction; two steps suffice to exercise the buffers
    out, info = dc.run_case(case, "C14.d.world", collect_layout=True)
    pb = info.get("pb")
    if pb is None or out.failures or any(r is None for r in info.get("results") or [None]):
        return out
    results = info["results"]
    G = pb.group_size
    itemsize = torch.empty((), dtype=pb.comm_dtype).element_size()
    out.nontrivial = G >= 2
    out.classes += [pb.flavour, f"group{G}", "comm_" + str(pb.comm_dtype).split(".")[-1]]
    by_shard: dict = {}
    for r, res in enumerate(results):
        by_shard.setdefault(res["s"], []).append((r, res))
    for s, lst in by_shard.items():
        blocks = pb.unit_blocks(s)
        assign = ref_assign([n * itemsize for _, n in blocks], G)
        base = None
        for r, res in lst:
            lay = res["layout"]
            jr = pb.group_rank(r)
            if len(lay["views"]) != len(blocks):
                out.fail("C14.d.views", "number of block buffers differs from the number of blocks", f"rank {r}: {len(lay['views'])} vs {len(blocks)}")
                return out
            seg = lay["total"] // G if G else 0
            if lay["total"] != seg * G or lay["local_off"] != jr * seg or lay["local_len"] != seg:
                out.fail("C14.d.segments", "the rank's send segment is not its slice of the gather buffer", f"rank {r} group rank {jr}: total {lay['total']} local_off {lay['local_off']} local_len {lay['local_len']}")
            iv = []
            for k, (v, (i, n), (al, rk)) in enumerate(zip(lay["views"], blocks, assign)):
                where = f"rank {r} block {k} (param {i})"
                if v["shape"] != v["block_shape"]:
                    out.fail("C14.d.view_shape", "a block buffer does not have the block's shape", f"{where}: {v['shape']} vs {v['block_shape']}")
                if v["dtype"] != str(pb.comm_dtype):
                    out.fail("C14.d.view_dtype", "a block buffer does not have the communication dtype", f"{where}: {v['dtype']}")
                if v["nbytes"] != n * itemsize or v["nbytes"] > al:
                    out.fail("C14.d.view_size", "a block buffer is smaller than the block in the communication dtype or exceeds its aligned slot", f"{where}: {v['nbytes']} bytes, block needs {n * itemsize}, slot {al}")
                if not v["same_storage"] or not v["contiguous"]:
                    out.fail("C14.d.view", "a block buffer is not a contiguous view of the gather buffer", where)
                if not (rk * seg <= v["byte_off"] and v["byte_off"] + al <= (rk + 1) * seg):
                    out.fail("C14.d.owner_segment", "a block buffer (with its aligned slot) lies outside its owner's segment", f"{where}: offset {v['byte_off']} slot {al} owner {rk} segment size {seg}")
                iv.append((v["byte_off"], v["byte_off"] + al))
                if lay["selector"][k] != (rk == jr):
                    out.fail("C14.d.assignment", "a rank's block selector differs from the size-only assignment", f"{where}: selector {lay['selector'][k]} owner {rk} group rank {jr}")
            iv.sort()
            if any(x[1] > y[0] for x, y in zip(iv, iv[1:])):
                out.fail("C14.d.disjoint", "two block buffers (aligned slots) overlap", f"rank {r}")
            offs = [v["byte_off"] for v in lay["views"]]
            if base is None:
                base = offs
            elif offs != base:
                out.fail("C14.d.same_on_all_ranks", "ranks of one shard compute different buffer layouts", f"rank {r}")
        # state ownership: within a communication group every block has state on exactly one rank
        groups: dict = {}
        for r, res in lst:
            gid = pb.group_id(r)
            groups.setdefault(gid, []).append(res)
        nblocks_per_param: dict = {}
        for (i, n) in blocks:
            nblocks_per_param[i] = nblocks_per_param.get(i, 0) + 1
        for gid, members in groups.items():
            for i, nb in nblocks_per_param.items():
                keys: list = []
                for res in members:
                    keys += res["state_blocks"].get(i, [])
                if len(keys) != nb or len(set(keys)) != nb:
                    out.fail("C14.d.state_partition", "optimizer state of a parameter's blocks is not partitioned over the ranks of the group (each block on exactly one rank)",
                             f"shard {s} group {gid} param {i}: {sorted(keys)} for {nb} blocks")
    return out


STREAMS = {
    "assign": Stream("assign", oracle=oracle_assign, strategy=strategy, quick=20000, thorough=200000, shards_quick=8, shards_thorough=16),
    "assign_grid": Stream("assign_grid", oracle=oracle_assign, enumerate=enumerate_grid, exhaustive=True, shards_quick=8, shards_thorough=16),
    "buffers": Stream("buffers", oracle=oracle_buffers, strategy=strategy, quick=6000, thorough=60000, shards_quick=4, shards_thorough=16),
    "worlds": Stream("worlds", oracle=oracle_worlds, strategy=strategy_worlds, quick=200, thorough=1500, shards_quick=8, shards_thorough=16),
}
