"""C17 - the constructor accepts exactly the documented hyperparameter domain.

Oracle: an acceptance predicate written from the class docstring / the property text (not from the constructor's if-chain).
Streams
  grid    : exhaustive one-at-a-time and two-at-a-time variation of every hyperparameter over {interior, each boundary, just outside each
            boundary (nextafter), far outside, NaN, +-inf} around three valid baselines.
  random  : Hypothesis cross product of the same value tables (k-at-a-time for random k).
  configs : grafting configs (epsilon, beta2 tables), preconditioner configs (negative tolerance, duplicate ignored dims), ignored dims x
            override, and unknown config subclasses for the three NotImplementedError branches.
On success the resolved defaults are checked: beta3 == beta1 when -1 was passed, start_preconditioning_step == precondition_frequency when
-1 was passed, everything else stored verbatim.
"""
from __future__ import annotations

import itertools
import math
from typing import Any, Iterator

import torch

from ..core import Outcome, Stream

LEVEL = "exploration"
RULE = (
    "grid: every hyperparameter takes every value of its table (interior, boundary, nextafter outside, far outside, NaN, inf) one and two at a time "
    "around 3 valid baselines - enumerated completely. random: 1-6 hyperparameters varied at once. configs: grafting / preconditioner / distributed "
    "config objects. Non-trivial = at least one argument differs from the baseline and lies on or outside a documented boundary. Distinct = "
    "canonical JSON of the argument dict."
)
BOUNDS = "value tables listed in vf/props/c17.py TABLES; 3 baselines; 1- and 2-at-a-time exhaustive, up to 6-at-a-time random"
ASSUMPTIONS = ["the acceptance predicate (function `accept`) is the documented domain quoted in the property statement"]
NONTRIVIAL_FLOOR = 100

nan, inf = float("nan"), float("inf")
na = math.nextafter

TABLES: dict[str, list] = dict(
    lr=[0.0, -0.0, na(0.0, -1), -1.0, 1e-2, 1.0, 10.0, inf, nan, -inf],
    beta1=[0.0, na(0.0, -1), -0.1, 0.5, na(1.0, 0), 1.0, 1.5, nan],
    beta2=[0.0, na(0.0, 1), 0.5, 1.0, na(1.0, 2), -0.1, nan, 2.0],
    beta3=[-1.0, 0.0, na(0.0, -1), 0.5, na(1.0, 0), 1.0, -0.5, -2.0, nan, 1.5, na(-1.0, 0), na(-1.0, -2)],
    epsilon=[0.0, na(0.0, 1), 1e-12, 1.0, -1e-12, nan, inf],
    momentum=[0.0, na(0.0, -1), 0.5, na(1.0, 0), 1.0, -0.5, nan],
    dampening=[0.0, na(0.0, -1), 0.5, na(1.0, 0), 1.0, -0.5, nan],
    weight_decay=[0.0, na(0.0, -1), 0.1, 10.0, -1.0, nan, inf],
    max_preconditioner_dim=[1, 0, -1, 2, 1024],
    precondition_frequency=[1, 0, -1, 2, 5],
    start_preconditioning_step=[-1, -2, 0, 1, 2, 4, 5, 6, 10**9],
    inv_root_override=[0, 1, 4, -1, [], [0], [1, 2], [2, -1], [0, 0, 3], {"seq": "tuple", "v": [1, 2]}, {"seq": "tuple", "v": [2, -1]}, {"seq": "range", "v": [2, 5]},
                       {"seq": "range", "v": [-1, 2]}, {"seq": "custom", "v": [3, 2, 1]}, {"seq": "custom", "v": [3, -2]}],
)
BASES = [
    dict(lr=0.01, beta1=0.9, beta2=0.99, beta3=-1.0, epsilon=1e-8, momentum=0.0, dampening=0.0, weight_decay=0.0, max_preconditioner_dim=8,
         precondition_frequency=2, start_preconditioning_step=-1, inv_root_override=0),
    dict(lr=1.0, beta1=0.0, beta2=1.0, beta3=0.5, epsilon=1e-12, momentum=0.9, dampening=0.5, weight_decay=0.1, max_preconditioner_dim=1024,
         precondition_frequency=5, start_preconditioning_step=5, inv_root_override=[1, 2]),
    dict(lr=0.0, beta1=0.5, beta2=0.5, beta3=0.0, epsilon=1.0, momentum=0.5, dampening=0.0, weight_decay=0.0, max_preconditioner_dim=1,
         precondition_frequency=1, start_preconditioning_step=4, inv_root_override=2),
]
NAMES = list(TABLES)


class _ReadOnlySeq:
    pass


def materialise(v: Any) -> Any:
    """JSON encoding of non-list Sequence[int] values: the documented type of inv_root_override is `int | Sequence[int]`."""
    if isinstance(v, dict) and "seq" in v:
        from collections.abc import Sequence

        if v["seq"] == "tuple":
            return tuple(v["v"])
        if v["seq"] == "range":
            return range(v["v"][0], v["v"][1])

        class ConfigSeq(Sequence):  # a read-only sequence as configuration containers provide
            def __init__(self, items: list) -> None:
                self._items = list(items)

            def __getitem__(self, i: Any) -> Any:
                return self._items[i]

            def __len__(self) -> int:
                return len(self._items)

            def __eq__(self, other: Any) -> bool:
                return isinstance(other, ConfigSeq) and self._items == other._items

            def __repr__(self) -> str:
                return f"ConfigSeq({self._items})"

        return ConfigSeq(v["v"])
    return v


def accept(k: dict) -> bool:
    """The documented domain (property C17)."""
    ok = True
    ok &= k["lr"] >= 0
    ok &= 0 <= k["beta1"] < 1
    ok &= 0 < k["beta2"] <= 1
    ok &= (k["beta3"] == -1) or (0 <= k["beta3"] < 1)
    ok &= k["epsilon"] > 0
    ok &= 0 <= k["momentum"] < 1
    ok &= 0 <= k["dampening"] < 1
    ok &= k["weight_decay"] >= 0
    ok &= k["max_preconditioner_dim"] >= 1
    ok &= k["precondition_frequency"] >= 1
    s = k["start_preconditioning_step"]
    ok &= (s == -1) or (s >= k["precondition_frequency"])
    o = k["inv_root_override"]
    from collections.abc import Sequence

    ok &= all(e >= 0 for e in o) if isinstance(o, Sequence) else o >= 0
    return bool(ok)


def on_or_outside_boundary(name: str, v: Any) -> bool:
    if not isinstance(v, (int, float)):
        try:
            return any(e <= 0 for e in v) or len(v) == 0
        except TypeError:
            return True
    if isinstance(v, float) and (v != v or abs(v) == inf):
        return True
    edges = {"lr": [0.0], "beta1": [0.0, 1.0], "beta2": [0.0, 1.0], "beta3": [-1.0, 0.0, 1.0], "epsilon": [0.0], "momentum": [0.0, 1.0], "dampening": [0.0, 1.0],
             "weight_decay": [0.0], "max_preconditioner_dim": [1], "precondition_frequency": [1], "start_preconditioning_step": [-1], "inv_root_override": [0]}[name]
    try:
        return any(abs(v - e) <= 1e-9 or v < min(edges) or v > max(edges + [1]) for e in edges)
    except (TypeError, OverflowError):
        return True


def oracle(case: dict) -> Outcome:
    from distributed_shampoo.distributed_shampoo import DistributedShampoo

    out = Outcome()
    k = dict(BASES[case["base"]])
    changed = []
    for name, idx in case["set"]:
        val = idx["v"] if isinstance(idx, dict) else TABLES[name][idx]
        val = materialise(val)
        k[name] = val
        if val != BASES[case["base"]][name] or val != val:
            changed.append(name)
    out.key = {"k": repr(k)}
    out.nontrivial = any(on_or_outside_boundary(n, k[n]) for n in changed)
    exp = accept(k)
    p = torch.nn.Parameter(torch.zeros(3, 2))
    kw = {x: k[x] for x in k if x not in ("beta1", "beta2")}
    got: Any
    err = ""
    as_groups = case.get("params") == "groups"
    if as_groups:
        # parameters passed as param-group dicts in which every group overrides the varied hyperparameters with the (valid) baseline values: the
        # constructor's own arguments are still outside / inside the documented domain exactly as before
        base = BASES[case["base"]]
        ov: dict = {}
        for name in changed:
            if name in ("beta1", "beta2"):
                ov["betas"] = (base["beta1"], base["beta2"])
            else:
                ov[name] = base[name]
        p2 = torch.nn.Parameter(torch.zeros(2))
        plist: Any = [dict(params=[p], **ov), dict(params=[p2], **ov)]
        out.classes.append("param_groups_override_the_varied_arguments")
    else:
        plist = [p]
    try:
        o = DistributedShampoo(plist, betas=(k["beta1"], k["beta2"]), **kw)
        got = True
    except ValueError as e:
        got = False
        err = str(e)[:120]
    except Exception as e:  # noqa: BLE001
        got = f"{type(e).__name__}"
        err = str(e)[:200]
    desc = {n: k[n] for n in changed}
    if got is not exp:
        if exp:
            out.fail("C17.rejects_documented", f"a documented-valid combination is rejected ({'ValueError' if got is False else got})", f"{desc!r} base {case['base']}: {err}")
        elif got is True:
            out.fail("C17.accepts_undocumented", "a combination outside the documented domain is accepted: " + ",".join(sorted(n for n in changed if not _ok_alone(n, k))), f"{desc!r} base {case['base']}")
        else:
            out.fail("C17.wrong_exception", f"outside the domain raises {got} instead of ValueError", f"{desc!r} base {case['base']}: {err}")
        return out
    if got is True and as_groups:
        d = o.defaults
        if d.get("weight_decay") != k["weight_decay"] and k["weight_decay"] == k["weight_decay"]:
            out.fail("C17.defaults.verbatim", "weight_decay default is not stored verbatim", f"{desc!r}")
    elif got is True:
        g = o.param_groups[0]
        b3 = k["beta1"] if k["beta3"] == -1 else k["beta3"]
        stp = k["precondition_frequency"] if k["start_preconditioning_step"] == -1 else k["start_preconditioning_step"]
        if g["beta3"] != b3:
            out.fail("C17.defaults.beta3", "beta3 = -1 is not replaced by beta1 (or an explicit beta3 is altered)", f"{desc!r}: stored {g['beta3']} expected {b3}")
        if g["start_preconditioning_step"] != stp:
            out.fail("C17.defaults.start", "start_preconditioning_step = -1 is not replaced by precondition_frequency (or an explicit value is altered)", f"{desc!r}: stored {g['start_preconditioning_step']} expected {stp}")
        verb = {"lr": "lr", "epsilon": "epsilon", "momentum": "momentum", "dampening": "dampening", "weight_decay": "weight_decay",
                "max_preconditioner_dim": "max_preconditioner_dim", "precondition_frequency": "precondition_frequency", "inv_root_override": "inv_root_override"}
        for a, b in verb.items():
            same = (list(g[b]) == list(k[a])) if not isinstance(k[a], (int, float)) and not isinstance(g[b], (int, float)) else (g[b] == k[a])
            if not same and not (k[a] != k[a]):
                out.fail("C17.defaults.verbatim", f"{a} is not stored verbatim", f"{desc!r}: stored {g[b]!r} passed {k[a]!r}")
        if tuple(g["betas"]) != (k["beta1"], k["beta2"]):
            out.fail("C17.defaults.verbatim", "betas not stored verbatim")
    out.classes.append("accepted" if exp else "rejected")
    out.classes.append(f"varied{len(case['set'])}")
    return out


def _ok_alone(name: str, k: dict) -> bool:
    b = dict(BASES[0])
    b[name] = k[name]
    if name in ("precondition_frequency", "start_preconditioning_step"):
        b["precondition_frequency"], b["start_preconditioning_step"] = k["precondition_frequency"], k["start_preconditioning_step"]
    try:
        return accept(b)
    except Exception:  # noqa: BLE001
        return False


def enumerate_grid(tier: str, i: int, n: int) -> Iterator[dict]:
    idx = 0
    for base in range(len(BASES)):
        for a in NAMES:
            for ia in range(len(TABLES[a])):
                idx += 1
                if idx % n == i:
                    yield {"base": base, "set": [[a, ia]]}
                    yield {"base": base, "set": [[a, ia]], "params": "groups"}
        for a, b in itertools.combinations(NAMES, 2):
            for ia in range(len(TABLES[a])):
                for ib in range(len(TABLES[b])):
                    idx += 1
                    if idx % n == i:
                        yield {"base": base, "set": [[a, ia], [b, ib]]}


def strategy_random():
    from hypothesis import strategies as st

    @st.composite
    def case(draw: Any) -> dict:
        names = draw(st.lists(st.sampled_from(NAMES), min_size=1, max_size=6, unique=True))
        floats = st.one_of(st.floats(allow_nan=True, allow_infinity=True), st.floats(-2, 2), st.floats(0, 1), st.sampled_from([0.0, 1.0, -1.0, 0.5]))
        ints = st.one_of(st.integers(-3, 12), st.integers(-(10**6), 10**6))

        def value(nm: str):
            if isinstance(TABLES[nm][0], float):
                return floats.map(lambda v: {"v": v})
            if nm == "inv_root_override":
                return st.one_of(ints, st.lists(st.integers(-2, 6), max_size=5)).map(lambda v: {"v": v})
            return ints.map(lambda v: {"v": v})

        return {"base": draw(st.integers(0, len(BASES) - 1)), "params": draw(st.sampled_from(["list", "list", "groups"])),
                "set": [[nm, draw(st.one_of(st.integers(0, len(TABLES[nm]) - 1), value(nm)))] for nm in names]}

    return case()


# --------------------------------------------------------------------------- config classes
CONFIG_CASES: list[dict] = []
for _eps in [0.0, na(0.0, 1), 1e-10, 1.0, -1e-10, nan, inf, -inf]:
    for _cls in ("AdaGradGraftingConfig", "RMSpropGraftingConfig", "AdamGraftingConfig"):
        CONFIG_CASES.append({"kind": "graft_eps", "cls": _cls, "value": _eps})
for _b2 in [0.0, na(0.0, 1), 0.5, 1.0, na(1.0, 2), -0.1, nan, 2.0, na(1.0, 0)]:
    for _cls in ("RMSpropGraftingConfig", "AdamGraftingConfig"):
        CONFIG_CASES.append({"kind": "graft_beta2", "cls": _cls, "value": _b2})
for _n in [-1, 0, 1, 3, -5]:
    for _cls in ("ShampooPreconditionerConfig", "EigenvalueCorrectedShampooPreconditionerConfig"):
        CONFIG_CASES.append({"kind": "tolerance", "cls": _cls, "value": _n})
for _ig in [[], [0], [0, 1], [0, 0], [1, 1, 2], [3, 2, 1]]:
    for _cls in ("ShampooPreconditionerConfig", "EigenvalueCorrectedShampooPreconditionerConfig"):
        CONFIG_CASES.append({"kind": "ignored", "cls": _cls, "value": _ig})
for _ov in [0, 2, [2, 2], [], [0]]:
    for _ig in [[0], [], [1, 0]]:
        for _cls in ("ShampooPreconditionerConfig", "EigenvalueCorrectedShampooPreconditionerConfig"):
            CONFIG_CASES.append({"kind": "ignored_override", "cls": _cls, "value": _ig, "override": _ov})
for _u in ("graft", "precond", "dist"):
    CONFIG_CASES.append({"kind": "unsupported", "which": _u})
for _eps in [0.0, na(0.0, 1), 1e-10, -1e-10, nan]:
    CONFIG_CASES.append({"kind": "graft_in_constructor", "value": _eps})


def oracle_config(case: dict) -> Outcome:
    import distributed_shampoo.shampoo_types as T
    from distributed_shampoo.distributed_shampoo import DistributedShampoo

    out = Outcome()
    out.nontrivial = True
    kind = case["kind"]
    v = case.get("value")

    def run(fn: Any) -> Any:
        try:
            fn()
            return True
        except ValueError:
            return False
        except NotImplementedError:
            return "NotImplementedError"
        except Exception as e:  # noqa: BLE001
            return type(e).__name__

    params = lambda: [torch.nn.Parameter(torch.zeros(3, 2))]  # noqa: E731
    if kind == "graft_eps":
        exp: Any = v > 0
        got = run(lambda: getattr(T, case["cls"])(epsilon=v))
    elif kind == "graft_beta2":
        exp = 0 < v <= 1
        got = run(lambda: getattr(T, case["cls"])(beta2=v))
    elif kind == "tolerance":
        exp = v >= 0
        got = run(lambda: getattr(T, case["cls"])(num_tolerated_failed_amortized_computations=v))
    elif kind == "ignored":
        exp = len(v) == len(set(v))
        got = run(lambda: getattr(T, case["cls"])(ignored_dims=list(v)))
    elif kind == "ignored_override":
        ov = case["override"]
        exp = (v == []) or ov == 0
        got = run(lambda: DistributedShampoo(params(), preconditioner_config=getattr(T, case["cls"])(ignored_dims=list(v)), inv_root_override=ov))
    elif kind == "graft_in_constructor":
        exp = v > 0
        got = run(lambda: DistributedShampoo(params(), grafting_config=T.AdaGradGraftingConfig(epsilon=v)))
    else:
        from dataclasses import dataclass, field

        from matrix_functions_types import DefaultEigenConfig, RootInvConfig

        @dataclass
        class MyGraft(T.GraftingConfig):
            pass

        @dataclass(kw_only=True)
        class MyPre(T.PreconditionerConfig):
            amortized_computation_config: RootInvConfig = field(default_factory=lambda: DefaultEigenConfig)

        @dataclass
        class MyDist(T.DistributedConfig):
            pass

        exp = "NotImplementedError"
        got = run({"graft": lambda: DistributedShampoo(params(), grafting_config=MyGraft()),
                   "precond": lambda: DistributedShampoo(params(), preconditioner_config=MyPre()),
                   "dist": lambda: DistributedShampoo(params(), distributed_config=MyDist())}[case["which"]])
    if got is not exp and got != exp:
        out.fail(f"C17.config.{kind}", f"config acceptance differs from the documented domain (expected {exp}, got {got})", repr(case))
    out.classes.append(kind)
    return out


def enumerate_configs(tier: str, i: int, n: int) -> Iterator[dict]:
    for idx, c in enumerate(CONFIG_CASES):
        if idx % n == i:
            yield c


STREAMS = {
    "grid": Stream("grid", oracle=oracle, enumerate=enumerate_grid, exhaustive=True, shards_quick=16, shards_thorough=16),
    "random": Stream("random", oracle=oracle, strategy=strategy_random, quick=3000, thorough=60000, shards_quick=4, shards_thorough=16),
    "configs": Stream("configs", oracle=oracle_config, enumerate=enumerate_configs, exhaustive=True, shards_quick=1, shards_thorough=1),
}
