"""Property-based verification harness for facebookresearch/optimizers (Distributed Shampoo).

See /verif/DESIGN.md. The repository under test is imported from $VERIF_REPO (default /repo),
which `check` puts first on sys.path.
"""
