"""Shared machinery for the simulator-based properties (C06 DDP, C07 FSDP/HSDP, C08 fully_shard/hybrid_shard, C14(d), C09 DDP layout).

A *distributed case* is
  {"flavour": "ddp" | "fsdp" | "hsdp" | "fully_shard" | "hybrid_shard",
   "R": replicate size (ddp: world size), "S": shard count (1 for ddp), "G": num_trainers_per_group (-1 = all),
   "comm_params": bool, "comm_dtype": "default" | "fp32" | "fp16" | "bf16",
   "cfg": gen.st_config dict, "shapes": [...], "pseed": int, "steps": [gen.st_step dicts], "repair": bool}

For every simulated rank the real optimizer runs with the real distributor; the oracle is the *serial* optimizer on what that rank's shard
means mathematically (DESIGN 5.5), compared bitwise after every step.  Reduced-precision communication is modelled exactly by a rounding shim
on the oracle side.
"""
from __future__ import annotations

import math
import traceback
from typing import Any
from unittest import mock

import torch

from . import gen, refmodel as rm, sim
from .core import Failure, Outcome
from .props import c14 as c14ref
from .props import c15 as c15ref

COMM = {"default": torch.float32, "fp32": torch.float32, "fp16": torch.float16, "bf16": torch.bfloat16}
KNOWN_STARVATION = "a rank whose blocks all lack a gradient skips the collective (starvation)"


def comm_enum(name: str):
    from distributed_shampoo.shampoo_types import CommunicationDType as C

    return {"default": C.DEFAULT, "fp32": C.FP32, "fp16": C.FP16, "bf16": C.BF16}[name]


# --------------------------------------------------------------------------- the logical problem and each rank's view of it
class Problem:
    def __init__(self, case: dict):
        self.case = case
        self.cfg = case["cfg"]
        self.eff = gen.effective(self.cfg)
        self.shapes = [list(s) for s in case["shapes"]]
        self.dt = gen.DT[self.cfg["pdtype"]]
        # optional per-parameter dtypes (a param group may mix precisions); self.dt stays the group's nominal dtype
        self.dts = [gen.DT[x] for x in (case.get("pdtypes") or [self.cfg["pdtype"]] * len(case["shapes"]))]
        self.flavour = case["flavour"]
        self.R, self.S = case.get("R", 1), case.get("S", 1)
        self.W = self.R * self.S if self.flavour in ("hsdp", "hybrid_shard") else (self.S if self.flavour in ("fsdp", "fully_shard") else self.R)
        self.G = case.get("G", -1)
        self.group_size = (self.R if self.G == -1 else self.G) if self.flavour in ("ddp", "hsdp", "hybrid_shard") else 1
        self.comm_dtype = COMM[case.get("comm_dtype", "default")]
        self.comm_params = bool(case.get("comm_params", False))
        self.full = [gen.make_tensor(s, "gauss", case.get("pseed", 0) * 131 + i, self.cfg.get("gscale", 1.0), self.dts[i]) for i, s in enumerate(self.shapes)]
        self.steps = [dict(s) for s in case["steps"]]
        self.ranges = self._flat_ranges() if self.flavour in ("fsdp", "hsdp") else None

    # -- FSDP flat-parameter sharding model: parameters concatenated (no padding between them; the tail is padded), equal chunks
    def _flat_ranges(self) -> list[list[tuple[int, int]]]:
        numels = [math.prod(s) for s in self.shapes]
        total = sum(numels)
        c = -(-total // self.S) if total else 0
        offs = [0]
        for n in numels:
            offs.append(offs[-1] + n)
        out = []
        for r in range(self.S):
            lo, hi = r * c, min((r + 1) * c, total)
            row = []
            for i in range(len(numels)):
                a, b = max(lo, offs[i]), min(hi, offs[i + 1])
                row.append((a - offs[i], b - offs[i]) if a < b else (0, 0))
            out.append(row)
        return out

    def rows(self, i: int, s: int) -> tuple[int, int]:
        """torch.chunk rule used by Shard(0) / fully_shard: ceil(n / S) rows per rank, later ranks may get fewer or none."""
        shp = self.shapes[i]
        if not shp:
            return (0, 1) if s == 0 else (0, 0)
        n = shp[0]
        c = -(-n // self.S)
        return min(s * c, n), min((s + 1) * c, n)

    def local_slices(self, s: int) -> list[tuple[str, Any]]:
        """What shard rank s holds of every parameter."""
        if self.flavour == "ddp":
            return [("full", None)] * len(self.shapes)
        if self.flavour in ("fsdp", "hsdp"):
            return [("flat", rg) for rg in self.ranges[s]]
        return [("rows", self.rows(i, s)) for i in range(len(self.shapes))]

    def local_of(self, t: torch.Tensor, i: int, s: int) -> torch.Tensor:
        kind, arg = self.local_slices(s)[i]
        if kind == "full":
            return t.clone()
        if kind == "flat":
            return t.reshape(-1)[arg[0]:arg[1]].clone()
        return t[arg[0]:arg[1]].clone()  # order-0 shapes are not generated for dim-0 sharded flavours

    def pedits(self, step: dict) -> dict[int, torch.Tensor]:
        """Parameters that are overwritten from outside the optimizer before this step (a model checkpoint loaded after the optimizer was built,
        weight averaging, clipping): param index -> new full tensor."""
        pe = step.get("pedit")
        if not pe:
            return {}
        return {i: gen.make_tensor(self.shapes[i], "gauss", pe["seed"] * 7 + i, self.cfg.get("gscale", 1.0), self.dts[i]) for i in pe["params"] if i < len(self.shapes)}

    def grads(self, step: dict) -> list[torch.Tensor | None]:
        gs = gen.step_grads(self.shapes, step, torch.float64)
        return [None if g is None else g.to(self.dts[i]) for i, g in enumerate(gs)]

    # -- the serial meaning of shard s: list of (param index, sub-tensor view spec) whose concatenation is the local data
    def serial_units(self, s: int) -> list[tuple[int, Any]]:
        units: list[tuple[int, Any]] = []
        for i, (kind, arg) in enumerate(self.local_slices(s)):
            if kind == "full":
                units.append((i, ("full", tuple(self.shapes[i]))))
            elif kind == "flat":
                a, b = arg
                for (x, y, shp) in c15ref.reference_cuts(tuple(self.shapes[i]), a, b):
                    units.append((i, ("flat", x, y, shp)))
            else:
                a, b = arg
                if b > a:
                    units.append((i, ("rows", a, b)))
        return units

    def unit_tensor(self, t: torch.Tensor, unit: tuple[int, Any]) -> torch.Tensor:
        i, spec = unit
        if spec[0] == "full":
            return t.clone()
        if spec[0] == "flat":
            _, x, y, shp = spec
            return t.reshape(-1)[x:y].clone().reshape(shp)
        _, a, b = spec
        return (t.clone() if not self.shapes[i] else t[a:b].clone())

    # -- block ownership by the reference assignment (C14 certifies that the implementation's equals it)
    def unit_blocks(self, s: int) -> list[tuple[int, int]]:
        """(param index, number of elements) for every block of shard s, in the distributor's global block order."""
        res = []
        for (i, spec) in self.serial_units(s):
            shp = self.unit_tensor(self.full[i], (i, spec)).shape
            md, sls = rm.block_slices(tuple(shp), self.eff["mpd"], self.eff["merge"])
            for sl in sls:
                n = 1
                for d_, sl_ in zip(md, sl):
                    n *= len(range(*sl_.indices(d_)))
                res.append((i, n))
        return res

    def owners(self, s: int) -> list[list[int]]:
        """For each rank j of a communication group: sorted parameter indices of which j owns at least one block (shard s)."""
        blocks = self.unit_blocks(s)
        itemsize = torch.empty((), dtype=self.comm_dtype).element_size()
        assign = c14ref.ref_assign([n * itemsize for _, n in blocks], self.group_size)
        own: list[set] = [set() for _ in range(self.group_size)]
        for (i, _), (_, rk) in zip(blocks, assign):
            own[rk].add(i)
        return [sorted(o) for o in own]

    def group_rank(self, r: int) -> int:
        """Rank of global rank r inside its communication group (ranks of a process group are numbered in ascending global order)."""
        G = self.group_size
        if self.flavour == "ddp":
            return r % G
        perm = self.case.get("mesh_perm") or list(range(self.R * self.S))
        col = next(sorted(perm[j::self.S]) for j in range(self.S) if r in perm[j::self.S])
        return col.index(r) % G

    def group_id(self, r: int) -> int:
        """Which communication group (inside its replicate column) global rank r belongs to."""
        G = self.group_size
        if self.flavour == "ddp":
            return r // G
        perm = self.case.get("mesh_perm") or list(range(self.R * self.S))
        col = next(sorted(perm[j::self.S]) for j in range(self.S) if r in perm[j::self.S])
        return col.index(r) // G

    def nonascending_replicate_groups(self) -> bool:
        perm = self.case.get("mesh_perm")
        if not perm or self.flavour not in ("hsdp", "hybrid_shard"):
            return False
        return any(perm[j::self.S] != sorted(perm[j::self.S]) for j in range(self.S))

    def f10_class(self) -> bool:
        """Open finding F10: for order-0 blocks (0-d parameter, use_merge_dims=False) of a sub-float32 parameter dtype the search direction is
        float32 (0-d type promotion with the float32 bias-correction scalars), so a communication dtype narrower than float32 rounds it even
        though it is 'at least as precise as the parameters'.  Such cases are compared with the rounding-shim oracle and counted as excluded."""
        return (self.flavour in ("ddp", "hsdp", "hybrid_shard") and not self.eff["merge"] and any(len(s) == 0 for s in self.shapes)
                and any(d_ in (torch.bfloat16, torch.float16) for d_ in self.dts) and self.comm_dtype in (torch.bfloat16, torch.float16))

    def every_rank_owns_a_block(self) -> bool:
        for s in range(self.S):
            if self.flavour in ("fsdp", "fully_shard"):
                if not self.unit_blocks(s):
                    return False
            elif any(not o for o in self.owners(s)):
                return False
        return True

    def repair_starvation(self) -> int:
        """Open finding F5: a rank of a communication group whose blocks all lack a gradient skips the all-gather while its peers wait.
        The main generators give such a rank one gradient back (counted); a directed probe keeps the finding visible."""
        if self.flavour not in ("ddp", "hsdp", "hybrid_shard") or self.group_size <= 1:
            return 0
        owners = [self.owners(s) for s in range(self.S)]
        repaired = 0
        for st in self.steps:
            mask = st["mask"]
            changed = True
            while changed:
                changed = False
                for s in range(self.S):
                    local = sorted({i for o in owners[s] for i in o})
                    if not any(mask[i] for i in local):
                        continue  # every rank of this shard skips the group consistently
                    for o in owners[s]:
                        if o and not any(mask[i] for i in o):
                            mask[o[0]] = True
                            repaired += 1
                            changed = True
        return repaired

    def starving_steps(self) -> int:
        if self.flavour not in ("ddp", "hsdp", "hybrid_shard") or self.group_size <= 1:
            return 0
        n = 0
        for st in self.steps:
            for s in range(self.S):
                own = self.owners(s)
                local = sorted({i for o in own for i in o})
                if any(st["mask"][i] for i in local) and any(o and not any(st["mask"][i] for i in o) for o in own):
                    n += 1
                    break
        return n


# --------------------------------------------------------------------------- serial oracle
def serial_snapshots(pb: Problem, s: int) -> tuple[list[list[torch.Tensor]] | None, str | None]:
    """Run the single-process optimizer on shard s's units; returns per step the list of unit tensors (or an error text)."""
    from distributed_shampoo.utils.shampoo_distributor import Distributor

    units = pb.serial_units(s)
    if not units:
        return [[] for _ in pb.steps], None
    unit_ts = [pb.unit_tensor(pb.full[i], (i, spec)) for (i, spec) in units]
    ll = pb.case.get("llayout")
    if ll and pb.flavour in ("fully_shard", "hybrid_shard"):
        # "exactly as the single-process optimizer would update that local tensor as an ordinary parameter": the ordinary parameter has the local
        # shard's memory layout too (strided and contiguous reductions may round differently in bfloat16)
        for j, ((i, spec), t) in enumerate(zip(units, unit_ts)):
            t2 = noncontig_like(t, pb.eff) if (i < len(ll) and ll[i]) else None
            if t2 is not None:
                unit_ts[j] = t2
    params = [torch.nn.Parameter(t) for t in unit_ts]
    cd, pdt, cp = pb.comm_dtype, pb.dt, pb.comm_params
    comm = pb.flavour in ("ddp", "hsdp", "hybrid_shard")
    exact = (not comm) or (all(_at_least_as_precise(cd, d_) for d_ in pb.dts) and not (pb.f10_class() and pb.case.get("probe") != "F10"))

    def shim(self: Any, masked_blocked_search_directions: tuple) -> None:
        if cp:
            torch._foreach_add_(self._local_masked_blocked_params, masked_blocked_search_directions)
            for p in self._local_masked_blocked_params:
                p.copy_(p.to(cd).to(p.dtype))
        else:
            for p, d in zip(self._local_masked_blocked_params, masked_blocked_search_directions):
                p.add_(d.to(cd))

    ctx = mock.patch.object(Distributor, "update_params", shim) if not exact else _Null()
    snaps: list[list[torch.Tensor]] = []
    try:
        with ctx:
            opt = gen.build_optimizer(params, pb.cfg)
            for st in pb.steps:
                grads = pb.grads(st)
                ed = pb.pedits(st)
                for p, (i, spec) in zip(params, units):
                    p.grad = None if grads[i] is None else pb.unit_tensor(grads[i], (i, spec))
                    if i in ed:
                        with torch.no_grad():
                            p.copy_(pb.unit_tensor(ed[i], (i, spec)))
                opt.step()
                snaps.append([p.detach().clone() for p in params])
    except Exception as e:  # noqa: BLE001
        return None, f"{type(e).__name__}: {str(e)[:200]}"
    return snaps, None


def noncontig_like(t: torch.Tensor, eff: dict) -> torch.Tensor | None:
    """t's values and shape in a non-row-major memory layout, or None where the optimizer's param.view(merged dims) would not be legal for it."""
    if t.dim() < 2 or t.numel() == 0:
        return None
    rev = list(range(t.dim()))[::-1]
    t2 = t.permute(*rev).contiguous().permute(*rev)
    if t2.is_contiguous():
        return None
    md = tuple(rm.merge_dims(tuple(t.shape), eff["mpd"], True)) if eff["merge"] else tuple(t.shape)
    try:
        t2.view(md)
    except RuntimeError:
        return None
    return t2


def _same(a: torch.Tensor, b: torch.Tensor) -> bool:
    """Bitwise equality in which NaNs at the same positions count as equal whatever their sign / payload bits (a diverged run - e.g. 0/0 with a
    grafting epsilon that underflows in float16 - is NaN on both sides; which NaN a kernel produces is not part of any contract)."""
    if a.shape != b.shape or a.dtype != b.dtype:
        return False
    if a.is_floating_point() and a.numel():
        na, nb = torch.isnan(a), torch.isnan(b)
        if bool(na.any()) or bool(nb.any()):
            if not bool(torch.equal(na, nb)):
                return False
            z = torch.zeros((), dtype=a.dtype)
            return rm.bitwise_equal(torch.where(na, z, a), torch.where(nb, z, b))
    return rm.bitwise_equal(a, b)


def _at_least_as_precise(cd: torch.dtype, pd: torch.dtype) -> bool:
    order = {torch.bfloat16: (8, 7), torch.float16: (5, 10), torch.float32: (8, 23), torch.float64: (11, 52)}
    (ce, cm), (pe, pm) = order[cd], order[pd]
    return ce >= pe and cm >= pm


class _Null:
    def __enter__(self) -> None:
        return None

    def __exit__(self, *a: Any) -> None:
        return None


def local_from_units(pb: Problem, s: int, unit_tensors: list[torch.Tensor]) -> list[torch.Tensor]:
    """Concatenate the serial units back into what rank s holds per parameter (flat shard / row slice / full tensor)."""
    units = pb.serial_units(s)
    out: list[torch.Tensor] = []
    for i in range(len(pb.shapes)):
        parts = [t.reshape(-1) for (ui, _), t in zip(units, unit_tensors) if ui == i]
        kind, arg = pb.local_slices(s)[i]
        if kind == "full":
            out.append(parts[0].reshape(pb.shapes[i]))
        elif kind == "flat":
            out.append(torch.cat(parts) if parts else torch.empty(0, dtype=pb.dts[i]))
        else:
            a, b = arg
            shp = [b - a] + pb.shapes[i][1:] if pb.shapes[i] else []
            out.append(parts[0].reshape(shp) if parts else torch.empty([0] + pb.shapes[i][1:], dtype=pb.dts[i]))
    return out


# --------------------------------------------------------------------------- the world
def make_rank_fn(pb: Problem, collect_layout: bool = False, checkpoint_at: int | None = None):
    import torch.distributed as dist
    from torch.distributed.device_mesh import init_device_mesh
    from torch.distributed.fsdp import ShardingStrategy

    from distributed_shampoo.shampoo_types import (DDPShampooConfig, FSDPParameterMetadata, FSDPShampooConfig, FullyShardShampooConfig,
                                                   HSDPShampooConfig, HybridShardShampooConfig)

    fl = pb.flavour

    def fn(rank: int, world: sim.World) -> dict:
        from torch.distributed.tensor import DTensor, Replicate, Shard

        mesh = None
        if fl == "ddp":
            s = 0
            dc: Any = DDPShampooConfig(communication_dtype=comm_enum(pb.case.get("comm_dtype", "default")), num_trainers_per_group=pb.G, communicate_params=pb.comm_params)
        elif fl == "fsdp":
            s = dist.get_rank()
            dc = None  # needs the parameters (metadata), built below
        elif fl == "fully_shard":
            mesh = init_device_mesh("cpu", (pb.S,))
            s = mesh.get_coordinate()[0]
            dc = FullyShardShampooConfig()
        else:
            perm = pb.case.get("mesh_perm")
            if perm:
                from torch.distributed.device_mesh import DeviceMesh

                # the same (replicate x shard) layout with the global ranks placed in a different order (any DeviceMesh is a legal argument)
                mesh = DeviceMesh("cpu", torch.tensor(perm).reshape(pb.R, pb.S), mesh_dim_names=("replicate", "shard"))
            else:
                mesh = init_device_mesh("cpu", (pb.R, pb.S), mesh_dim_names=("replicate", "shard"))
            # the shard a rank holds is given by its mesh *coordinate* (what DTensor / FSDP use); get_local_rank() is the rank inside the (sorted)
            # process group and differs from the coordinate on meshes whose ranks are not in ascending order
            s = mesh.get_coordinate()[1]
            dc = None
        # local parameters
        local0 = [pb.local_of(pb.full[i], i, s) for i in range(len(pb.shapes))]
        llayout = pb.case.get("llayout")
        if llayout and fl in ("fully_shard", "hybrid_shard"):
            # same local values and shape in a non-row-major memory layout (a transposed / channels_last local shard); only where the optimizer's
            # param.view(merged dims) is legal for such a tensor, i.e. where merging leaves the local shape unchanged
            for i, t in enumerate(local0):
                t2 = noncontig_like(t, pb.eff) if (i < len(llayout) and llayout[i]) else None
                if t2 is not None:
                    local0[i] = t2
        if fl in ("fully_shard", "hybrid_shard"):
            placements = [Shard(0)] if fl == "fully_shard" else [Replicate(), Shard(0)]

            def to_dt(t: torch.Tensor, i: int) -> DTensor:
                gshape = torch.Size(pb.shapes[i]) if pb.shapes[i] else torch.Size([])
                if not pb.shapes[i]:
                    # 0-d tensors cannot be sharded along dim 0: present them as replicated scalars on shard rank 0 only is not expressible;
                    # the generator does not draw order-0 shapes for DTensor flavours
                    raise AssertionError("order-0 parameter in a dim-0 sharded flavour")
                stride = torch.empty(gshape, device="meta").stride()
                return DTensor.from_local(t, mesh, placements, run_check=False, shape=gshape, stride=stride)

            params = [torch.nn.Parameter(to_dt(t, i)) for i, t in enumerate(local0)]
        else:
            params = [torch.nn.Parameter(t) for t in local0]
        if fl in ("fsdp", "hsdp"):
            meta = {p: FSDPParameterMetadata(fqn=f"p{i}", shape=torch.Size(pb.shapes[i]), numel=math.prod(pb.shapes[i]), start_idx=pb.ranges[s][i][0],
                                             end_idx=pb.ranges[s][i][1], sharding_strategy=ShardingStrategy.HYBRID_SHARD if fl == "hsdp" else ShardingStrategy.FULL_SHARD)
                    for i, p in enumerate(params)}
            if fl == "fsdp":
                dc = FSDPShampooConfig(param_to_metadata=meta)
            else:
                dc = HSDPShampooConfig(param_to_metadata=meta, device_mesh=mesh, communication_dtype=comm_enum(pb.case.get("comm_dtype", "default")),
                                       num_trainers_per_group=pb.G, communicate_params=pb.comm_params)
        elif fl == "hybrid_shard":
            dc = HybridShardShampooConfig(device_mesh=mesh, communication_dtype=comm_enum(pb.case.get("comm_dtype", "default")),
                                          num_trainers_per_group=pb.G, communicate_params=pb.comm_params)

        def build(ps: list) -> Any:
            return gen.build_optimizer(ps, pb.cfg, distributed_config=dc)

        opt = build(params)
        res: dict = {"s": s, "snaps": [], "layout": None, "ckpt": None}
        if collect_layout and fl in ("ddp", "hsdp", "hybrid_shard"):
            res["layout"] = _layout(opt, params, pb)
        # NOTE: Optimizer.state is a defaultdict - indexing would create entries and change what gets checkpointed
        res["state_blocks"] = {i: sorted(k for k in opt.state.get(p, {}) if isinstance(k, str) and "block_" in k) for i, p in enumerate(params)}

        def local_data(p: torch.nn.Parameter) -> torch.Tensor:
            d = p.detach()
            return d.to_local().clone() if hasattr(d, "to_local") else d.clone()

        def set_grads(ps: list, st: dict) -> None:
            grads = pb.grads(st)
            for i, full_new in pb.pedits(st).items():
                d = ps[i].detach()
                tgt = d.to_local() if hasattr(d, "to_local") else d
                with torch.no_grad():
                    tgt.copy_(pb.local_of(full_new, i, s))
            for i, p in enumerate(ps):
                if grads[i] is None:
                    p.grad = None
                    continue
                g = pb.local_of(grads[i], i, s)
                if fl in ("fully_shard", "hybrid_shard"):
                    gshape = torch.Size(pb.shapes[i])
                    p.grad = DTensor.from_local(g, mesh, placements, run_check=False, shape=gshape, stride=torch.empty(gshape, device="meta").stride())
                else:
                    p.grad = g

        B = None
        for t, st in enumerate(pb.steps):
            set_grads(params, st)
            opt.step()
            world.barrier(("A", t))
            res["snaps"].append([local_data(p) for p in params])
            if checkpoint_at is not None and t + 1 == checkpoint_at:
                # C09, DTensor layout: save, clone per leaf, fresh optimizer over parameter clones, load
                named = lambda ps: iter([(f"p{i}", p) for i, p in enumerate(ps)])  # noqa: E731
                sd = opt.distributed_state_dict(key_to_param=named(params))
                res["ckpt_kinds"] = sorted({type(v).__name__ for d in sd["state"].values() for v in d.values()})
                import copy

                sd2 = {"state": {pk: {k: v.clone() for k, v in d.items()} for pk, d in sd["state"].items()}, "param_groups": copy.deepcopy(sd["param_groups"])}
                pb_params = [torch.nn.Parameter(p.detach().clone()) for p in params]
                B = (build(pb_params), pb_params)
                B[0].load_distributed_state_dict(sd2, key_to_param=named(pb_params))
                res["ckpt"] = {"snaps": [], "state_equal": []}
            elif B is not None:
                set_grads(B[1], st)
                B[0].step()
                world.barrier(("B", t))
                res["ckpt"]["snaps"].append([local_data(p) for p in B[1]])
                sa = {k: rm.clone_walk(opt.state.get(p, {})) for k, p in enumerate(params)}
                sb = {k: rm.clone_walk(B[0].state.get(p, {})) for k, p in enumerate(B[1])}
                eq = all(set(sa[k]) == set(sb[k]) and all(rm.bitwise_equal(sa[k][q], sb[k][q]) for q in sa[k]) for k in sa)
                res["ckpt"]["state_equal"].append(bool(eq))
        return res

    return fn


def _layout(opt: Any, params: list, pb: Problem) -> dict:
    """Observation points named by C14: typed buffer views, gather buffer segments, block selector."""
    d = opt._per_group_state_lists[0]["distributor"]
    gbuf = d._global_dist_buffer
    views = []
    for v, bp in zip(d._global_dist_blocked_buffers, d._global_blocked_params):
        views.append({"shape": list(v.shape), "block_shape": list(bp.shape), "dtype": str(v.dtype), "byte_off": v.storage_offset() * v.element_size(),
                      "nbytes": v.numel() * v.element_size(), "same_storage": v.untyped_storage().data_ptr() == gbuf.untyped_storage().data_ptr(),
                      "contiguous": v.is_contiguous()})
    return {"views": views, "total": gbuf.numel(), "local_off": d._local_dist_buffer.storage_offset(), "local_len": d._local_dist_buffer.numel(),
            "selector": list(d._distributor_selector), "group_size": getattr(d, "_group_size", getattr(d, "_dist_group_size", None))}


# --------------------------------------------------------------------------- the differential oracle
def run_case(case: dict, prefix: str, collect_layout: bool = False, checkpoint_at: int | None = None) -> tuple[Outcome, dict]:
    out = Outcome()
    info: dict = {}
    pb = Problem(case)
    if not pb.every_rank_owns_a_block():
        out.classes.append("rejected_some_rank_without_block")
        return out, info
    if case.get("repair", True):
        out.excluded += pb.repair_starvation()
    if pb.f10_class() and case.get("probe") != "F10":
        out.excluded += 1
    starving = pb.starving_steps()
    try:
        results, errors, alive, world = sim.run_world(pb.W, make_rank_fn(pb, collect_layout, checkpoint_at))
    except Exception:  # noqa: BLE001
        raise
    info.update(results=results, errors=errors, world=world, pb=pb)
    tr = sim.check_traces(world)
    info["traces"] = tr
    out.excluded += tr["t2_known_f6"]
    if any(alive):
        raise RuntimeError(f"simulator: rank threads still alive after join timeout (harness problem) {alive}")
    # (e) nobody is left waiting
    if world.deadlock is not None:
        waiting = {r: (k[0] if isinstance(k, tuple) else str(k)) for r, k in world.deadlock.items()}
        # starvation (F5): the starved rank skipped the group and sits at the step barrier while its peers wait inside the all-gather
        starv = starving and "all_gather" in waiting.values() and set(waiting.values()) <= {"all_gather", "barrier"}
        sig = KNOWN_STARVATION if starv else "a rank is left waiting at " + ",".join(sorted(set(waiting.values())))
        out.fail(f"{prefix}.e.no_rank_left_waiting", sig, f"waiting: {world.deadlock}; starving steps in the history: {starving}")
        return out, info
    real_errors = {r: e for r, e in errors.items() if e != "abort"}
    if real_errors:
        r0 = sorted(real_errors)[0]
        tb = real_errors[r0]
        etype = tb.split("\n", 1)[0]
        # a serial optimizer that fails the same way (an iterative solver giving up, LAPACK returning NaN -> PreconditionerValueError)
        # is not a distributed difference
        s0 = results[r0]["s"] if results[r0] is not None else 0
        for s_try in sorted({s0} | set(range(pb.S))):
            snaps, err = serial_snapshots(pb, s_try)
            if err is not None and err.split(":")[0] == etype:
                out.classes.append("serial_raises_too")
                return out, info
        site = [ln.strip() for ln in tb.splitlines() if ln.strip().startswith("File") and "/vf/" not in ln]
        sig = f"a simulated rank raised {etype}" + (f" at {site[-1].split(', in ')[-1]}" if site else "")
        if pb.nonascending_replicate_groups() and etype == "RuntimeError" and ("doesn't match the broadcast shape" in tb or "size of tensor a (0) must match" in tb):
            sig += " (state DTensor allocated on a submesh that does not contain the owning rank: device mesh with non-ascending replicate groups)"
        out.fail(f"{prefix}.rank_raises", sig, tb[:300] + " ... " + tb[-1500:])
        return out, info
    # (c) T1 / (d) T2
    for v in tr["t1"]:
        out.fail(f"{prefix}.c.collective_sequences", "ranks of one process group issue different collective sequences", repr(v))
    for v in tr["t2_other"]:
        sites = sorted({s_ for c in v["calls"].values() for s_ in c[1]})
        out.fail(f"{prefix}.d.new_group_collective", "process-group creation is not collective: " + ",".join(sites), repr(v)[:1500])
    # (a) every rank equals the serial oracle, (b) replicas identical
    serial: dict[int, Any] = {}
    for r, res in enumerate(results):
        if res is None:
            out.fail(f"{prefix}.rank_raises", "a simulated rank returned nothing", f"rank {r}: {errors.get(r)}")
            return out, info
        s = res["s"]
        if s not in serial:
            serial[s] = serial_snapshots(pb, s)
        snaps, err = serial[s]
        if err is not None:
            out.classes.append("serial_raises")
            return out, info
        for t in range(len(pb.steps)):
            want = local_from_units(pb, s, snaps[t])
            got = res["snaps"][t]
            for i, (a, b) in enumerate(zip(got, want)):
                if a.shape != b.shape or not _same(a, b):
                    dev = float((a.double() - b.double()).abs().max()) if a.shape == b.shape and a.numel() else float("nan")
                    out.fail(f"{prefix}.a.equals_serial", "a rank's parameters differ from the single-process optimizer" + (" (order-0 block, float32 search direction rounded by the communication dtype)" if pb.case.get("probe") == "F10" else ""),
                             f"rank {r} (shard {s}) step {t + 1} param {i} shape {list(a.shape)} vs {list(b.shape)} max abs diff {dev:.3e}")
                    break
            else:
                continue
            break
    by_shard: dict[int, list] = {}
    for r, res in enumerate(results):
        by_shard.setdefault(res["s"], []).append((r, res))
    for s, lst in by_shard.items():
        r0, base = lst[0]
        for r, res in lst[1:]:
            for t in range(len(pb.steps)):
                if any(not _same(a, b) for a, b in zip(res["snaps"][t], base["snaps"][t])):
                    out.fail(f"{prefix}.b.replicas_identical", "replicas hold different parameters", f"ranks {r0} and {r} (shard {s}) step {t + 1}")
                    break
            else:
                continue
            break
    out.sub_evaluations += pb.W * len(pb.steps)
    return out, info


def world_classes(pb: Problem, tr: dict) -> list[str]:
    cl = [pb.flavour, f"W{pb.W}", f"group{pb.group_size}"]
    if pb.flavour in ("ddp", "hsdp", "hybrid_shard"):
        cl.append("communicate_params" if pb.comm_params else "communicate_updates")
        cl.append("comm_" + str(pb.comm_dtype).split(".")[-1])
        if not all(_at_least_as_precise(pb.comm_dtype, d_) for d_ in pb.dts):
            cl.append("reduced_precision")
        if len(set(pb.dts)) > 1:
            cl.append("mixed_param_dtypes")
        if any(st.get("pedit") for st in pb.steps):
            cl.append("parameters_edited_outside_the_optimizer")
            if any(st.get("pedit") and any(not st["mask"][i] for i in st["pedit"]["params"] if i < len(st["mask"])) for st in pb.steps):
                cl.append("edited_parameter_without_gradient")
        ll = pb.case.get("llayout")
        if ll and pb.flavour in ("fully_shard", "hybrid_shard"):
            for i, shp in enumerate(pb.shapes):
                a, b = pb.rows(i, 0)
                loc = (b - a,) + tuple(shp[1:])
                if i < len(ll) and ll[i] and len(loc) >= 2 and math.prod(loc) > 0 and noncontig_like(torch.empty(loc), pb.eff) is not None:
                    cl.append("non_row_major_local_shard")
                    break
        if pb.case.get("mesh_perm") and list(pb.case["mesh_perm"]) != sorted(pb.case["mesh_perm"]):
            cl.append("permuted_mesh")
        if 1 < pb.group_size < pb.R:
            cl.append("group_between_1_and_W")
    prev = None
    for st in pb.steps:
        if prev is not None and st["mask"] != prev and any(st["mask"]) and any(prev):
            cl.append("mask_change")
        if not all(st["mask"]):
            cl.append("absent_gradients")
        prev = st["mask"]
    cl.append(f"precond_{pb.cfg['precond']['kind']}")
    return sorted(set(cl))


_ = (traceback, Failure)


def st_param_edits(draw: Any, steps: list, nparams: int) -> None:
    """With probability 1/4 mark one or two later steps of a drawn history with an external overwrite of some parameters; an edited parameter often
    has no gradient in that step (it must then keep the edited value)."""
    from hypothesis import strategies as st

    if len(steps) < 2 or not draw(st.sampled_from([False, False, False, True])):
        return
    for t in sorted(draw(st.sets(st.integers(1, len(steps) - 1), min_size=1, max_size=2))):
        idx = sorted(draw(st.sets(st.integers(0, nparams - 1), min_size=1, max_size=min(2, nparams))))
        steps[t] = dict(steps[t], pedit={"params": idx, "seed": draw(st.integers(0, 10**4))})
        if draw(st.booleans()) and nparams >= 2:
            m = list(steps[t]["mask"])
            m[idx[0]] = False
            if any(m):
                steps[t]["mask"] = m


def st_exponent_range_class(draw: Any, case: dict) -> dict:
    """Forced class: the communication dtype has a narrower exponent range than the parameters (float16 communication of bfloat16 / float32 values) and
    the magnitudes lie where float16 is subnormal or flushes to zero: rescale parameters, gradients and epsilon of a drawn case to ~1e-6."""
    from hypothesis import strategies as st

    if case.get("comm_dtype") != "fp16" or not draw(st.sampled_from([False, False, True])):
        return case
    old = case["cfg"].get("gscale", 1.0) or 1.0
    new = draw(st.sampled_from([1e-6, 1e-7, 3e-6]))
    f = new / old
    case["cfg"] = dict(case["cfg"], gscale=new, epsilon=max(case["cfg"]["epsilon"] * f * f, 1e-30))
    case["steps"] = [dict(s_, gscale=s_["gscale"] * f) for s_ in case["steps"]]
    return case
