"""Independent reference model of the documented Distributed Shampoo update (no repository imports).

Written from the DistributedShampoo class docstring, README.md and the comments of the group step.
Everything is computed in float64 from the optimizer's *own previous state* ("one-step-ahead" /
teacher-forced checking, DESIGN.md 4.1).  Next to every predicted value the model carries a
first-order running bound of the rounding error the implementation may legitimately commit when it
evaluates the same formula in the parameter / factor dtype (DESIGN.md 4.3); a comparison fails when
   ||actual - predicted||_F  >  K * ||bound||_F
with one constant K for all quantities.
"""
from __future__ import annotations

import itertools
import math
from dataclasses import dataclass, field
from typing import Any

import torch

D = torch.float64
U32 = 2.0**-24  # unit round-off of float32 (lr, bias corrections and the root exponent are float32 scalars)
K_TOL = 16.0
INV_C = 8.0
UNINFORMATIVE = 0.1


def eps_of(dtype: torch.dtype) -> float:
    return float(torch.finfo(dtype).eps)


def local(t: Any) -> Any:
    return t.to_local() if hasattr(t, "to_local") else t


# --------------------------------------------------------------------------- blocking reference
def merge_dims(shape, thr: int, merge: bool) -> tuple[int, ...]:
    shape = tuple(int(s) for s in shape)
    if not merge:
        return shape
    sq = [d for d in shape if d != 1] or [1]
    out = [sq[0]]
    for d in sq[1:]:
        if out[-1] * d <= thr:
            out[-1] *= d
        else:
            out.append(d)
    return tuple(out)


def block_slices(shape, thr: int, merge: bool) -> tuple[tuple[int, ...], list[tuple[slice, ...]]]:
    """Merged dims and the block index slices in enumeration order (dimension 0 outermost)."""
    md = merge_dims(shape, thr, merge)
    per_dim = [[slice(a, min(a + thr, n)) for a in range(0, n, thr)] for n in md]
    return md, (list(itertools.product(*per_dim)) if md else [()])


# --------------------------------------------------------------------------- state access
def walk(obj: Any, path: tuple = (), acc: dict | None = None) -> dict:
    """All tensors reachable through dicts, sequences and module-like objects (anything with state_dict + __dict__)."""
    if acc is None:
        acc = {}
    if isinstance(obj, torch.Tensor):
        acc[path] = obj
    elif isinstance(obj, dict):
        for k, v in obj.items():
            walk(v, path + (k,), acc)
    elif isinstance(obj, (list, tuple)):
        for i, v in enumerate(obj):
            walk(v, path + (i,), acc)
    elif hasattr(obj, "state_dict") and hasattr(obj, "__dict__"):
        for k, v in vars(obj).items():
            walk(v, path + (k,), acc)
    return acc


def clone_walk(obj: Any) -> dict:
    return {p: local(t).detach().clone() for p, t in walk(obj).items()}


def bitwise_equal(a: torch.Tensor, b: torch.Tensor) -> bool:
    if a.shape != b.shape or a.dtype != b.dtype:
        return False
    if a.numel() == 0:
        return True
    a = a.contiguous()
    b = b.contiguous()
    if a.dtype == torch.bool:
        return bool(torch.equal(a, b))
    it = {1: torch.int8, 2: torch.int16, 4: torch.int32, 8: torch.int64}[a.element_size()]
    return bool(torch.equal(a.view(it), b.view(it)))


@dataclass
class BlockSnap:
    raw: dict  # path -> cloned tensor (for bitwise comparisons)
    factor: list = field(default_factory=list)
    inv: list = field(default_factory=list)  # Shampoo inverse roots
    eigvec: list = field(default_factory=list)  # SOAP eigenbases
    eigval: torch.Tensor | None = None  # SOAP corrected eigenvalues
    diag: list = field(default_factory=list)
    adagrad: torch.Tensor | None = None
    momentum: torch.Tensor | None = None
    filtered: torch.Tensor | None = None

    def f(self, name: str):
        v = getattr(self, name)
        if isinstance(v, list):
            return [x.to(D) for x in v]
        return None if v is None else v.to(D)


def snap_block(bs: dict) -> BlockSnap:
    s = BlockSnap(raw=clone_walk(bs))
    sh = bs.get("shampoo")
    if sh is not None:
        s.factor = [local(t).detach().clone() for t in sh.factor_matrices]
        s.diag = [bool(local(t)) for t in sh.is_factor_matrices_diagonal]
        if hasattr(sh, "inv_factor_matrices"):
            s.inv = [local(t).detach().clone() for t in sh.inv_factor_matrices]
        if hasattr(sh, "factor_matrices_eigenvectors"):
            s.eigvec = [local(t).detach().clone() for t in sh.factor_matrices_eigenvectors]
            s.eigval = local(sh.corrected_eigenvalues).detach().clone()
    for key, attr in (("adagrad", "adagrad"), ("momentum", "momentum"), ("filtered_grad", "filtered")):
        if key in bs:
            setattr(s, attr, local(bs[key]).detach().clone())
    return s


# --------------------------------------------------------------------------- hyperparameters
def roots_for(cfg: dict, order: int) -> float:
    """Root r such that the preconditioner exponent is -1/r (before the exponent multiplier)."""
    ov = cfg.get("override", 0)
    soap = cfg["precond"]["kind"] == "soap"
    default = 2 if soap else 2 * order
    if isinstance(ov, (list, tuple)):
        return ov[order] if order < len(ov) else default
    return default if ov == 0 else ov


def is_refresh(t: int, start: int, freq: int) -> bool:
    return t == start or (t > start and t % freq == 0)


def bias_corr(beta: float, t: int, enabled: bool) -> tuple[float, float]:
    """(1 - beta^t, relative error of the float32 evaluation)"""
    if not enabled or beta >= 1.0:
        return 1.0, 0.0
    bc = 1.0 - beta**t
    return bc, (t + 2) * 2 * U32 / bc


# --------------------------------------------------------------------------- linear algebra helpers
def mode_apply(G: torch.Tensor, mats: list, sel: list, back: bool = False) -> torch.Tensor:
    """Contract every selected mode k with mats[j] (G x_k M^T or M); unselected modes are kept."""
    it = iter(mats)
    for s in sel:
        if s:
            G = torch.tensordot(G, next(it), dims=([0], [1] if back else [0]))
        else:
            G = G.permute(*range(1, G.dim()), 0)
    return G


def spec_norm(M: torch.Tensor) -> float:
    if M.numel() == 0:
        return 0.0
    if M.numel() == 1:
        return float(M.abs().max())
    return float(torch.linalg.matrix_norm(M.to(D), 2))


def fro(x: torch.Tensor) -> float:
    return float(torch.linalg.vector_norm(x.to(D).reshape(-1)))


def _amax(x: torch.Tensor | None) -> float:
    if x is None or x.numel() == 0:
        return 0.0
    v = float(x.abs().max())
    return v if v == v else float("inf")


def uniform_err(like: torch.Tensor, fnorm: float) -> torch.Tensor:
    n = max(1, like.numel())
    return torch.full_like(like, fnorm / math.sqrt(n), dtype=D)


def inv_root_oracle(A: torch.Tensor, root: float, eps: float) -> tuple[torch.Tensor, float, torch.Tensor]:
    """(A - min(lambda_min,0) I + eps I)^(-1/root) by float64 eigendecomposition; condition number; shifted spectrum."""
    A = A.to(D)
    A = (A + A.T) / 2
    L, Q = torch.linalg.eigh(A)
    L = L - min(float(L.min()), 0.0) + eps
    X = (Q * L.pow(-1.0 / root)) @ Q.T
    return X, float(L.max() / L.min()), L


@dataclass
class Comp:
    name: str
    dev: float
    bound: float
    informative: bool = True
    hard: bool = True  # hard=False: reported as metric only

    @property
    def ratio(self) -> float:
        return self.dev / self.bound if self.bound > 0 else (0.0 if self.dev == 0 else float("inf"))


def comp(name: str, actual: torch.Tensor, pred: torch.Tensor, err: torch.Tensor, floor: float = 0.0) -> Comp:
    # below the smallest normal number of the storage dtype the relative rounding model does not hold (gradual underflow):
    # an absolute floor of a few subnormal spacings per element is part of every bound
    if actual.dtype.is_floating_point:
        floor = floor + 4.0 * float(torch.finfo(actual.dtype).tiny) * math.sqrt(max(1, actual.numel()))
    a = actual.to(D)
    if a.shape != pred.shape:
        return Comp(name + ".shape", float("inf"), 1.0)
    if not bool(torch.isfinite(a).all()):
        return Comp(name + ".finite", float("inf"), 1.0)
    return Comp(name, fro(a - pred), fro(err) + floor)


def check_inv_root(name: str, F_post: torch.Tensor, X_post: torch.Tensor, root: float, eps: float, bc2: float, dbc2: float,
                   ef: float, ep: float) -> Comp:
    """Stored inverse root vs the float64 spectral oracle of the stored factor matrix (DESIGN 4.3)."""
    n = F_post.shape[0]
    Xr, kappa, L = inv_root_oracle(F_post.to(D) / bc2, root, eps)
    lnmax = max(abs(math.log(float(L.min()))), abs(math.log(float(L.max()))))
    bound = INV_C * n * (ef / 2) * kappa + dbc2 / root + (2.0 / root) * U32 * lnmax + 2 * ef + 2 * ep
    X = X_post.to(D)
    if not bool(torch.isfinite(X).all()):
        return Comp(name + ".finite", float("inf"), 1.0)
    # a root whose entries lie in (or near) the subnormal range of its storage dtype carries an absolute, not a relative, rounding error (a diverged
    # history: factor ~1e23, root ~3e-43 in float32): the same floor as in comp(), relative to the size of the exact root
    xr_norm = float(torch.linalg.matrix_norm(Xr, 2)) if n > 1 else float(Xr.abs().max())
    if X_post.dtype.is_floating_point and xr_norm > 0:
        # the root is computed in the factor dtype and stored in the block dtype: the coarser of the two subnormal thresholds applies
        tiny_f = max((float(torch.finfo(dt_).tiny) for dt_ in (torch.float16, torch.bfloat16, torch.float32, torch.float64)
                      if abs(float(torch.finfo(dt_).eps) - ef) <= 1e-3 * ef), default=0.0)
        bound = bound + 4.0 * max(float(torch.finfo(X_post.dtype).tiny), tiny_f) * n / xr_norm
    err = float(torch.linalg.matrix_norm(X - Xr, 2) / torch.linalg.matrix_norm(Xr, 2)) if n > 1 else float((X - Xr).abs().max() / Xr.abs().max())
    return Comp(name, err, bound, informative=bound < UNINFORMATIVE)


# --------------------------------------------------------------------------- one step of one block
def predict_block(prev: BlockSnap, post: BlockSnap, g_raw: torch.Tensor, w_raw: torch.Tensor, w_post: torch.Tensor, hp: dict, t: int,
                  pd: torch.dtype, fd: torch.dtype) -> list[Comp]:
    """hp: effective hyperparameters of the group *at this step* (see gen.effective) plus cfg keys."""
    ep, ef = eps_of(pd), eps_of(fd)
    comps: list[Comp] = []
    b1, b2, b3 = hp["beta1"], hp["beta2"], hp["beta3"]
    wd, lr = hp.get("wd", 0.0), hp["lr"]
    mu, damp = hp.get("momentum", 0.0), hp.get("dampening", 0.0)
    graft = hp.get("graft")
    soap = hp["precond"]["kind"] == "soap"
    g = g_raw.to(D)
    w = w_raw.to(D)
    e_g = torch.zeros_like(g)
    if wd != 0.0 and not hp.get("decoupled", True):
        e_g = ep * (g.abs() + 2 * (wd * w).abs())  # product and sum are rounded in the parameter dtype
        g = g + wd * w
    order = g.dim()
    ignored = hp["precond"].get("ignored", [])
    sel = [d not in ignored for d in range(order)]
    pdims = [d for d in range(order) if sel[d]]
    root = roots_for(hp, order)
    gab = g.abs()

    # ---- factor matrices: F_k <- beta2 F_k + (1-beta2) G_(k) G_(k)^T   (unweighted sum when beta2 = 1)
    Fp = prev.f("factor")
    Fpost = post.f("factor")
    if len(Fp) != len(pdims) or len(Fpost) != len(pdims):
        comps.append(Comp("factor.count", float("inf"), 1.0))
        return comps
    coef = (1.0 - b2) if b2 != 1.0 else 1.0
    for j, d in enumerate(pdims):
        dims = [i for i in range(order) if i != d]
        outer = torch.tensordot(g, g, dims=[dims, dims])
        outer_abs = torch.tensordot(gab, gab, dims=[dims, dims])
        m = max(1, g.numel() // max(1, g.shape[d]))
        # the Gram matrix is formed in the parameter dtype and accumulated in the factor dtype: outside both finite ranges nothing is claimed
        if _amax(outer_abs) > 1e-3 * min(float(torch.finfo(pd).max), float(torch.finfo(fd).max)) or not math.isfinite(_amax(outer_abs)):
            return [Comp("overflow_domain", 0.0, 1.0, informative=False, hard=False)]
        Fhat = (b2 * Fp[j] if b2 != 1.0 else Fp[j]) + coef * outer
        err = coef * outer_abs * ((math.sqrt(m) + 2) * ep) + coef * 2 * torch.tensordot(gab, e_g, dims=[dims, dims]) \
            + ef * ((b2 * Fp[j]).abs() + coef * outer_abs + Fhat.abs()) + ep * coef * outer_abs
        comps.append(comp("factor", Fpost[j], Fhat, err))

    bc2, dbc2 = bias_corr(b2, t, hp.get("bias", True))

    # ---- SOAP second-moment accumulator: v <- beta2 v + (1-beta2) (Q^T-rotated gradient)^2 every step, in the basis stored *after* this step's
    # refresh; in the original coordinates while no basis exists; ignored dimensions are never rotated
    if soap:
        vp_, v_post_ = prev.f("eigval"), post.f("eigval")
        if vp_ is None or v_post_ is None:
            comps.append(Comp("eigval.missing", float("inf"), 1.0))
            return comps
        Qs = post.f("eigvec")
        rot = bool(Qs) and bool(Qs[0].any())
        g_rot = mode_apply(g, Qs, sel) if rot else g
        qn_ = math.prod(max(1.0, spec_norm(q)) for q in Qs) if rot else 1.0
        ns_ = sum(q.shape[0] for q in Qs) if rot else 0
        e_rot = uniform_err(g_rot, qn_ * (fro(e_g) + ns_ * ep * fro(g))) if rot else e_g
        v_hat = (b2 * vp_ if b2 != 1.0 else vp_) + coef * g_rot * g_rot
        if _amax(v_hat) > 1e-3 * float(torch.finfo(pd).max) or not math.isfinite(_amax(v_hat)):
            return [Comp("overflow_domain", 0.0, 1.0, informative=False, hard=False)]
        err_v2 = coef * (2 * g_rot.abs() * e_rot + 3 * ep * g_rot * g_rot) + ep * ((b2 * vp_).abs() + coef * g_rot * g_rot + v_hat.abs())
        comps.append(comp("eigval", post.eigval, v_hat, err_v2))

    # ---- grafting accumulator
    gd = e_gd = None
    if graft is not None and graft["type"] != "sgd":
        gb2 = 1.0 if graft["type"] == "adagrad" else graft["beta2"]
        vp = prev.f("adagrad")
        if vp is None or post.adagrad is None:
            comps.append(Comp("adagrad.missing", float("inf"), 1.0))
            return comps
        gcoef = (1.0 - gb2) if gb2 != 1.0 else 1.0
        v_hat = (gb2 * vp if gb2 != 1.0 else vp) + gcoef * g * g
        err_v = ep * (3 * gcoef * g * g + (gb2 * vp).abs() + v_hat.abs()) + gcoef * 2 * gab * e_g
        comps.append(comp("adagrad", post.adagrad, v_hat, err_v))

    # ---- filtered gradient (beta1 / beta3) with bias correction 1 - beta3 * beta1^(t-1)
    if b1 != 0.0:
        fgp = prev.f("filtered")
        if fgp is None or post.filtered is None:
            comps.append(Comp("filtered_grad.missing", float("inf"), 1.0))
            return comps
        fg_hat = b1 * fgp + (1 - b1) * g
        err_fg = 2 * ep * (fgp.abs() + gab + fg_hat.abs()) + (1 - b1) * e_g
        comps.append(comp("filtered_grad", post.filtered, fg_hat, err_fg))
        if b3 != b1:
            gbar = b3 * fgp + (1 - b3) * g
            e = 2 * ep * (fgp.abs() + gab + gbar.abs()) + (1 - b3) * e_g
        else:
            gbar, e = fg_hat, err_fg
        if hp.get("bias", True):
            bc1 = 1.0 - b3 * b1 ** (t - 1)
            dbc1 = (t + 2) * 2 * U32 * b3 * b1 ** (t - 1) / bc1 + 2 * U32
            gbar = gbar / bc1
            e = e / bc1 + gbar.abs() * (dbc1 + ep)
    else:
        gbar, e = g, e_g

    # ---- grafted direction  g / (sqrt(v / bc) + eps_graft)   (eps outside the root);  SGD: identity
    if graft is not None:
        if graft["type"] == "sgd":
            gd, e_gd = gbar, e
        else:
            gbc, dgbc = bias_corr(gb2, t, graft["type"] == "adam")
            v_post = post.f("adagrad")
            sq = (v_post / gbc).clamp_min(0).sqrt()
            denom = sq + graft["eps"]
            e_denom = sq * (dgbc / 2 + 2 * ep) + ep * denom
            gd = gbar / denom
            e_gd = e / denom + gd.abs() * (e_denom / denom + ep)

    use_graft = graft is not None and t < hp["start"]
    lim = 1e-3 * float(torch.finfo(pd).max)
    peaks: list[float] = [_amax(gd)] if gd is not None else []
    # ---- preconditioned direction
    if use_graft:
        d, e_d = gd, e_gd
    else:
        if soap:
            Q = post.f("eigvec")
            use = bool(Q) and bool(Q[0].any())
            qn = math.prod(max(1.0, spec_norm(q)) for q in Q) if use else 1.0
            nsum = sum(q.shape[0] for q in Q) if use else 0
            fr = mode_apply(gbar, Q, sel) if use else gbar
            e_fr = uniform_err(fr, qn * (fro(e) + nsum * ep * fro(gbar))) if use else e
            v_post = post.f("eigval")
            base = v_post / bc2 + hp["epsilon"]
            denom = base.pow(1.0 / root)
            rel = (1.0 / root) * ((v_post / bc2) / base * (dbc2 + 2 * ep) + ep) + 2 * ep
            dd = fr / denom
            e_dd = e_fr / denom + dd.abs() * (rel + ep)
            if use:
                ds = mode_apply(dd, Q, sel, back=True)
                e_ds = uniform_err(ds, qn * (fro(e_dd) + nsum * ep * fro(dd)))
            else:
                ds, e_ds = dd, e_dd
        else:
            mats = post.f("inv")
            P = math.prod(spec_norm(M) for M in mats) if mats else 1.0
            nsum = sum(M.shape[0] for M in mats)
            ds = mode_apply(gbar, mats, sel)
            e_ds = uniform_err(ds, P * (fro(e) + nsum * ep * fro(gbar))) if mats else e
            # the mode products are formed one root after the other in the block dtype: an intermediate (or the rounding noise carried through roots of
            # enormous norm, e.g. eps^(-1.82) = 1e22 per rank-deficient factor) may leave the finite range although the exact result is moderate
            if mats and (math.prod(max(1.0, spec_norm(M)) for M in mats) * _amax(gbar) > lim or fro(e_ds) > lim):
                return [Comp("overflow_domain", 0.0, 1.0, informative=False, hard=False)]
        d, e_d = ds, e_ds
        peaks.append(_amax(ds))
        if soap:
            peaks += [_amax(dd), _amax(fr)]
        if graft is not None:
            # the norm transfer squares its operands: stay below sqrt(max) of the parameter dtype
            if max(_amax(ds), _amax(gd)) > math.sqrt(lim):
                return [Comp("overflow_domain", 0.0, 1.0, informative=False, hard=False)]
            ns, ng = fro(ds), fro(gd)
            scale = ng / (ns + 1e-16)
            e_scale = (fro(e_gd) + 4 * ep * ng) / (ns + 1e-16) + scale * (fro(e_ds) + 4 * ep * ns) / (ns + 1e-16)
            d = ds * scale
            e_d = e_ds * scale + ds.abs() * e_scale + ep * d.abs()

    # ---- decoupled weight decay, momentum / Nesterov with dampening, parameter update
    if wd != 0.0 and hp.get("decoupled", True):
        e_d = e_d + ep * (d.abs() + 2 * (wd * w).abs())
        d = d + wd * w
    if mu != 0.0:
        mp = prev.f("momentum")
        if mp is None or post.momentum is None:
            comps.append(Comp("momentum.missing", float("inf"), 1.0))
            return comps
        m_hat = mu * mp + (1 - damp) * d
        e_m = (1 - damp) * e_d + ep * ((mu * mp).abs() + ((1 - damp) * d).abs() + m_hat.abs())
        comps.append(comp("momentum", post.momentum, m_hat, e_m))
        if hp.get("nesterov", False):
            d2 = (1 - damp) * d + mu * m_hat
            e_d = (1 - damp) * e_d + mu * e_m + ep * (((1 - damp) * d).abs() + (mu * m_hat).abs() + d2.abs())
            d = d2
        else:
            d, e_d = m_hat, e_m
    delta = -lr * d
    peak = max(peaks + [_amax(d), _amax(w + delta)])
    if not math.isfinite(peak) or peak > lim:
        return [Comp("overflow_domain", 0.0, 1.0, informative=False, hard=False)]
    e_delta = lr * e_d + (ep + 2 * U32) * delta.abs()
    w_hat = w + delta
    e_w = e_delta + ep * (w.abs() + delta.abs())
    comps.append(comp("param", w_post, w_hat, e_w))
    # the update itself, relative to its own size (reported; hard only when it is resolvable above the rounding of w)
    c = comp("delta", w_post.to(D) - w, delta, e_w)
    c.hard = False
    comps.append(c)
    return comps


# --------------------------------------------------------------------------- eigenbasis validity (SOAP)
def check_basis(name: str, F_post: torch.Tensor, Q_prev: torch.Tensor, Q_post: torch.Tensor, method: dict, pd: torch.dtype, fd: torch.dtype,
                expect_identity: bool) -> tuple[list[Comp], list[str]]:
    """Validity of a freshly stored eigenbasis.  Returns (comparisons, classes)."""
    comps: list[Comp] = []
    classes: list[str] = []
    n = F_post.shape[0]
    ep, ef = eps_of(pd), eps_of(fd)
    u = max(ep, ef)
    F = F_post.to(D)
    F = (F + F.T) / 2
    Q = Q_post.to(D)
    if not bool(torch.isfinite(Q).all()):
        return [Comp(name + ".finite", float("inf"), 1.0)], classes
    eye = torch.eye(n, dtype=D)
    if n == 1:
        comps.append(Comp(name + ".1x1", float((Q - 1).abs().max()), 0.0 + 1e-300))
        return comps, ["1x1"]
    if expect_identity:
        classes.append("diagonal_factor")
        comps.append(Comp(name + ".identity", fro(Q - eye), 1e-300))
        return comps, classes
    comps.append(Comp(name + ".orthonormal", fro(Q.T @ Q - eye), 4 * n * u))
    fn = fro(F)
    zero_est = not bool(Q_prev.any())
    if method.get("method", "eigh") == "eigh" or zero_est:
        M = Q.T @ F @ Q
        comps.append(Comp(name + ".diagonalises", fro(M - torch.diag(torch.diag(M))), 4 * n * u * fn + 1e-300))
        ray = torch.diag(M)
        viol = float((ray[:-1] - ray[1:]).clamp_min(0).max()) if n > 1 else 0.0
        comps.append(Comp(name + ".ascending", viol, 4 * n * u * fn + 1e-300))
        classes.append("eigh" if not zero_est or method.get("method") == "eigh" else "qr_zero_estimate")
        return comps, classes
    # QR / orthogonal iteration from the previous stored basis (cast to the factor dtype)
    classes.append("qr_step")
    ray = torch.einsum("ij,ik,kj->j", Q, F, Q)
    viol = float((ray[:-1] - ray[1:]).clamp_min(0).max())
    comps.append(Comp(name + ".rayleigh_ascending", viol, 8 * n * u * fn + 1e-300))
    Qk = Q_prev.to(fd).to(D)
    amp = 1.0
    best: Comp | None = None
    informative_all = True
    for k in range(1, int(method.get("max_it", 1)) + 1):
        Z = F @ Qk
        sv = torch.linalg.svdvals(Z)
        cond = float(sv.max() / sv.min()) if float(sv.min()) > 0 else float("inf")
        amp = amp * cond
        Qk = torch.linalg.qr(Z).Q
        evs = torch.einsum("ij,ik,kj->j", Qk, F, Qk)
        Qs = Qk[:, evs.argsort()]
        gaps = evs.sort().values
        mingap = float((gaps[1:] - gaps[:-1]).min()) if n > 1 else float("inf")
        # sorting by Rayleigh quotient is only well defined when the quotients are separated
        bound = 16 * n * u * amp + (0.0 if mingap > 64 * n * u * fn else float("inf"))
        if not (bound < 0.05):
            informative_all = False
            continue
        dev = fro((Qs.T @ Q).abs() - eye)
        c = Comp(name + f".qr_update", dev, bound)
        if best is None or c.ratio < best.ratio:
            best = c
    if best is not None and informative_all:
        comps.append(best)
        classes.append("qr_step_informative")
    elif best is not None and best.ratio <= K_TOL:
        classes.append("qr_step_matched_some_k")
    else:
        classes.append("qr_step_uninformative")
    return comps, classes
