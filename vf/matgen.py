"""Generated symmetric test matrices for C10 / C11 / C12: spectrum recipe x orthogonal basis, built in float64."""
from __future__ import annotations

import math
from typing import Any

import torch

D = torch.float64


def spectrum(n: int, recipe: dict) -> torch.Tensor:
    """Ascending-or-not list of n eigenvalues (float64) from a recipe."""
    kind = recipe["kind"]
    g = torch.Generator().manual_seed(recipe.get("seed", 0))
    logk = recipe.get("logk", 2.0)
    scale = recipe.get("scale", 1.0)
    if kind == "logspace":
        lam = torch.logspace(0, -logk, n, dtype=D)
    elif kind == "loguniform":
        lam = 10.0 ** (-logk * torch.rand(n, generator=g, dtype=D))
        lam[0] = 1.0
    elif kind == "clustered":
        k = max(1, n // 3)
        lam = torch.cat([torch.ones(k, dtype=D) * (1 + 1e-7 * torch.arange(k, dtype=D)), 10.0 ** (-logk) * (1 + 1e-7 * torch.arange(n - k, dtype=D))])
    elif kind == "repeated":
        vals = 10.0 ** (-logk * torch.rand(max(1, n // 2), generator=g, dtype=D))
        lam = vals[torch.randint(0, len(vals), (n,), generator=g)]
        lam[0] = 1.0
    elif kind == "identity":
        lam = torch.ones(n, dtype=D)
    elif kind == "zero":
        lam = torch.zeros(n, dtype=D)
    else:
        raise ValueError(kind)
    lam = lam * scale
    nz = recipe.get("nzero", 0)
    if nz:
        lam[-min(nz, n):] = 0.0
    neg = recipe.get("neg", 0.0)
    if neg and n > 1:
        lam[-1] = -neg * scale
    return lam


def basis(n: int, recipe: dict) -> torch.Tensor:
    kind = recipe.get("basis", "random")
    g = torch.Generator().manual_seed(recipe.get("seed", 0) + 7)
    if kind == "identity" or n == 1:
        return torch.eye(n, dtype=D)
    if kind == "random":
        return torch.linalg.qr(torch.randn(n, n, generator=g, dtype=D)).Q
    if kind == "block":
        Q = torch.eye(n, dtype=D)
        k = max(1, n // 2)
        Q[:k, :k] = torch.linalg.qr(torch.randn(k, k, generator=g, dtype=D)).Q
        return Q
    if kind == "permutation":
        return torch.eye(n, dtype=D)[torch.randperm(n, generator=g)]
    if kind == "hadamard_like":
        H = torch.linalg.qr(torch.sign(torch.randn(n, n, generator=g, dtype=D)) + 0.01 * torch.randn(n, n, generator=g, dtype=D)).Q
        return H
    raise ValueError(kind)


def make_matrix(n: int, recipe: dict, dtype: torch.dtype) -> tuple[torch.Tensor, torch.Tensor, torch.Tensor]:
    """Returns (A in dtype, eigenvalues used, eigenbasis used). A is exactly symmetric."""
    if recipe.get("struct") and n >= 2:
        return make_structured(n, recipe, dtype)
    lam = spectrum(n, recipe)
    V = basis(n, recipe)
    A = (V * lam) @ V.T
    A = ((A + A.T) / 2).to(dtype)
    A = (A + A.T) / 2 if dtype == D else torch.triu(A) + torch.triu(A, 1).T  # exact symmetry after the cast
    return A, lam, V


def make_structured(n: int, recipe: dict, dtype: torch.dtype) -> tuple[torch.Tensor, torch.Tensor, torch.Tensor]:
    """Symmetric matrices with *exact* structural zeros (not spectral constructions): a zero diagonal entry whose row is weakly coupled (slightly
    indefinite), arrowhead, banded and block-sparse patterns.  Returns (A, eigenvalues of A in float64, eigenvectors)."""
    g = torch.Generator().manual_seed(recipe.get("seed", 0) + 11)
    scale = recipe.get("scale", 1.0)
    kind = recipe["struct"]
    d = 10.0 ** (-recipe.get("logk", 2.0) * torch.rand(n, generator=g, dtype=D))
    d[0] = 1.0
    A = torch.diag(d)
    delta = recipe.get("coupling", 1e-2)
    if kind == "zero_diag_coupled":
        i = int(torch.randint(0, n, (1,), generator=g))
        A[i, i] = 0.0
        row = delta * torch.randn(n, generator=g, dtype=D)
        row[i] = 0.0
        A[i, :] = row
        A[:, i] = row
    elif kind == "arrow":
        row = delta * torch.randn(n, generator=g, dtype=D)
        row[0] = A[0, 0]
        A[0, :] = row
        A[:, 0] = row
    elif kind == "banded":
        off = delta * torch.randn(n - 1, generator=g, dtype=D)
        A = A + torch.diag(off, 1) + torch.diag(off, -1)
    elif kind == "skip_band":
        # neighbours never couple, second neighbours do
        if n >= 3:
            off = delta * torch.randn(n - 2, generator=g, dtype=D)
            A = A + torch.diag(off, 2) + torch.diag(off, -2)
    elif kind == "block_sparse":
        k = max(1, n // 2)
        B = torch.randn(k, 2, generator=g, dtype=D)
        A = torch.zeros(n, n, dtype=D)
        A[:k, :k] = B @ B.T
    elif kind == "zero_rows_indefinite":
        # k identically-zero rows / columns (dead units) next to a block that is slightly indefinite (round-off-like negative eigenvalue)
        k = max(1, min(n - 2, int(torch.randint(1, max(2, n // 2 + 1), (1,), generator=g)))) if n >= 3 else 0
        m = n - k
        lam = 10.0 ** (-recipe.get("logk", 2.0) * torch.rand(m, generator=g, dtype=D))
        lam[0] = 1.0
        lam[-1] = -abs(delta) * 1e-1  # within [-1e-3 * scale, 0)
        Qm = torch.linalg.qr(torch.randn(m, m, generator=g, dtype=D)).Q
        A = torch.zeros(n, n, dtype=D)
        idx = torch.randperm(n, generator=g)[:m].sort().values
        A[idx[:, None], idx[None, :]] = (Qm * lam) @ Qm.T
    elif kind == "newton_unit_start":
        # constant diagonal d, off-diagonal +-rho*d (A = d[(1-rho) I + rho s s^T], PSD for rho <= 1) with rho chosen so that
        # ||A + eps I||_F = (r+1)/2 * (d + eps): the coupled Newton iteration's starting matrix M_0 = z (A + eps I), z = (r+1) / (2 ||A + eps I||_F),
        # then has an exactly unit diagonal although its eigenvalues lie on both sides of one (boundary of the solver's early-exit logic)
        r, er = float(recipe["root"]), float(recipe.get("eps_rel", 0.0))
        q = ((r + 1.0) ** 2 / 4.0 - n) / (n * (n - 1.0)) if n > 1 else -1.0
        rho = (1.0 + er) * math.sqrt(q) if q > 0 else 0.3
        rho = min(rho, 0.97)
        sgn = (torch.randint(0, 2, (n,), generator=g).double() * 2 - 1)
        A = (1.0 - rho) * torch.eye(n, dtype=D) + rho * torch.outer(sgn, sgn)
    if recipe.get("psd"):
        # diagonally dominant => positive semi-definite (properties that quantify over PSD input only)
        offsum = (A - torch.diag(torch.diagonal(A))).abs().sum(dim=1)
        A = A + torch.diag(torch.clamp(offsum - torch.diagonal(A), min=0.0))
    A = (A * scale)
    A = ((A + A.T) / 2).to(dtype)
    A = torch.triu(A) + torch.triu(A, 1).T
    L, V = torch.linalg.eigh(A.to(D))
    return A, L, V


def st_recipe(max_logk: float = 8.0, allow_neg: bool = False, allow_zero: bool = True):
    from hypothesis import strategies as st

    @st.composite
    def rec(draw: Any) -> dict:
        r: dict = {
            "kind": draw(st.sampled_from(["logspace", "loguniform", "loguniform", "clustered", "repeated", "identity"] + (["zero"] if allow_zero else []))),
            "logk": min(max_logk, draw(st.sampled_from([0.0, 0.5, 1.0, 2.0, 3.0, 4.0, 5.0, 6.0, 8.0, 10.0, 12.0])) + draw(st.sampled_from([0.0, 0.3, 0.7]))),
            "scale": draw(st.sampled_from([1.0, 1.0, 1e-6, 1e-3, 1e3, 1e6, 37.0])),
            "seed": draw(st.integers(0, 10**6)),
            "basis": draw(st.sampled_from(["random", "random", "random", "identity", "block", "permutation", "hadamard_like"])),
            "nzero": draw(st.sampled_from([0, 0, 0, 1, 2, 5])) if allow_zero else 0,
        }
        if allow_neg:
            r["neg"] = draw(st.sampled_from([0.0, 0.0, 1e-7, 1e-5, 1e-3]))
        if draw(st.integers(0, 5)) == 0:
            kinds = ["arrow", "banded", "skip_band", "block_sparse"] + (["zero_diag_coupled", "zero_diag_coupled", "zero_rows_indefinite", "zero_rows_indefinite"] if allow_neg else [])
            r["struct"] = draw(st.sampled_from(kinds))
            r["coupling"] = draw(st.sampled_from([1e-2, 3e-2, 1e-3, 1e-4]))
            r["psd"] = not allow_neg
        return r

    return rec()


def st_root():
    from hypothesis import strategies as st

    return st.one_of(
        st.sampled_from([[1, 1], [2, 1], [4, 1], [6, 1], [8, 1], [8, 3], [3, 2], [10, 1], [1, 2]]),
        st.tuples(st.integers(1, 10), st.integers(1, 10)).map(list),
        st.tuples(st.integers(9, 30), st.integers(9, 30)).map(list),  # numerator and denominator both large (11/10, 13/15, 29/30)
        st.sampled_from([["mult", 4, 1.82], ["mult", 2, 1.82], ["mult", 6, 0.5], ["mult", 8, 1.5]]),
    )


def root_fraction(r: list):
    from fractions import Fraction

    if r[0] == "mult":
        return Fraction(r[1] / r[2])
    return Fraction(r[0], r[1])


def mp_inverse_root(A: torch.Tensor, root: float, eps: float) -> torch.Tensor:
    """50-digit reference  V (lambda - min(lambda_min,0) + eps)^(-1/root) V^T  of the *actual* float64 input (n <= 16)."""
    import mpmath as mp

    mp.mp.dps = 50
    n = A.shape[0]
    M = mp.matrix(n, n)
    for i in range(n):
        for j in range(n):
            M[i, j] = mp.mpf(float(A[i, j]))
    E, Q = mp.eigsy(M)
    lmin = min(E)
    shift = -lmin if lmin < 0 else mp.mpf(0)
    X = mp.matrix(n, n)
    r = mp.mpf(root)
    d = [(E[k] + shift + mp.mpf(eps)) ** (-1 / r) for k in range(n)]
    for i in range(n):
        for j in range(n):
            X[i, j] = mp.fsum(Q[i, k] * d[k] * Q[j, k] for k in range(n))
    return torch.tensor([[float(X[i, j]) for j in range(n)] for i in range(n)], dtype=D)


_ = math
