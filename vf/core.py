"""Core data types shared by the runner and the property modules.

A *case* is a JSON-serialisable value (dict / list / str / int / float / bool / None).
An *oracle* is a plain function  case -> Outcome  that runs the code under test on the case and
compares against the property's oracle.  Oracles never raise for a property violation; they
return Failure records.  Any exception that escapes an oracle is a harness error (exit 2).
"""
from __future__ import annotations

import hashlib
import json
import math
import traceback
from dataclasses import dataclass, field
from typing import Any, Callable


def canon(obj: Any) -> str:
    """Canonical JSON text of a case (used for hashing / distinctness)."""
    return json.dumps(obj, sort_keys=True, separators=(",", ":"), default=_default, allow_nan=True)


def _default(o: Any) -> Any:
    if isinstance(o, (set, frozenset)):
        return sorted(o)
    if isinstance(o, tuple):
        return list(o)
    if hasattr(o, "item"):
        return o.item()
    return repr(o)


def case_hash(obj: Any) -> str:
    return hashlib.sha1(canon(obj).encode()).hexdigest()


def jsonable(obj: Any) -> Any:
    """Round-trip through canonical JSON (tuples -> lists, numpy/torch scalars -> python)."""
    return json.loads(canon(obj))


@dataclass
class Failure:
    oracle: str  # name of the oracle clause that failed, e.g. "C01.a.filtered_grad"
    signature: str  # short, stable text used for bucketing and for known-finding matching
    message: str = ""
    observed: Any = None
    expected: Any = None

    def bucket(self) -> str:
        return f"{self.oracle}|{self.signature}"

    def to_json(self) -> dict:
        return {
            "oracle": self.oracle,
            "signature": self.signature,
            "message": self.message[:4000],
            "observed": jsonable(self.observed),
            "expected": jsonable(self.expected),
        }


@dataclass
class Outcome:
    nontrivial: bool = False
    classes: list[str] = field(default_factory=list)
    failures: list[Failure] = field(default_factory=list)
    excluded: int = 0  # cases / sub-cases that were repaired or skipped because of an open finding
    key: Any = None  # optional canonical form for distinctness (default: the case itself)
    sub_evaluations: int = 0  # optional: number of elementary comparisons made (reported, not required)
    metrics: dict[str, float] = field(default_factory=dict)  # max-aggregated numeric observations

    def fail(self, oracle: str, signature: str, message: str = "", observed: Any = None, expected: Any = None) -> None:
        self.failures.append(Failure(oracle, signature, message, observed, expected))

    def metric(self, name: str, value: float) -> None:
        if value is None or (isinstance(value, float) and math.isnan(value)):
            return
        if name not in self.metrics or value > self.metrics[name]:
            self.metrics[name] = float(value)


class OracleFailed(Exception):
    """Raised inside a Hypothesis test body to signal a (non-excluded) property failure."""


class SUTError(Exception):
    """Wraps an unexpected exception raised by the code under test."""

    def __init__(self, where: str, exc: BaseException):
        super().__init__(f"{where}: {type(exc).__name__}: {exc}")
        self.where = where
        self.exc = exc
        self.tb = traceback.format_exc()


def call_sut(out: Outcome, oracle: str, where: str, fn: Callable[[], Any], allowed: tuple = ()) -> tuple[bool, Any]:
    """Run fn() (code under test). An exception not in `allowed` becomes a Failure of `oracle`.

    Returns (ok, value_or_exception).
    """
    try:
        return True, fn()
    except allowed as e:  # type: ignore[misc]
        return False, e
    except Exception as e:  # noqa: BLE001 - the code under test may raise anything
        tb = traceback.extract_tb(e.__traceback__)
        inner = [f for f in tb if "/vf/" not in f.filename]
        site = f"{inner[-1].filename.split('/')[-1]}:{inner[-1].name}" if inner else "?"
        out.fail(
            oracle,
            f"{where} raised {type(e).__name__} at {site}",
            message="".join(traceback.format_exception(type(e), e, e.__traceback__))[-3000:],
        )
        return False, e


@dataclass
class Stream:
    """One generated-input stream of a property.

    Exactly one of (strategy), (machine), (enumerate) is used:
      strategy()                 -> Hypothesis strategy of cases
      machine = (config_strategy(), step_strategy(runner), runner_factory(config))
                                  -> Hypothesis RuleBasedStateMachine over histories;
                                     case = {"config":…, "steps":[…]}
      enumerate(tier, i, n)      -> iterator over the i-th of n slices of a finite domain
    oracle(case) -> Outcome       (for machines: built from runner_factory / runner.step / runner.finish)
    """

    name: str
    oracle: Callable[[Any], Outcome] | None = None
    strategy: Callable[[], Any] | None = None
    machine: tuple | None = None
    enumerate: Callable[[str, int, int], Any] | None = None
    quick: int = 0  # number of examples (or histories) in the quick tier, over all shards
    thorough: int = 0
    shards_quick: int = 4
    shards_thorough: int = 16
    max_steps: int = 10  # stateful only
    max_steps_thorough: int = 20
    exhaustive: bool = False  # True when `enumerate` covers a finite domain completely
    weight: float = 1.0


def replay_history(runner_factory: Callable[[Any], Any], case: dict) -> Outcome:
    """Plain (Hypothesis-free) execution of a recorded history."""
    runner = runner_factory(case["config"])
    out = Outcome()
    for s in case["steps"]:
        fails = runner.step(s)
        out.failures.extend(fails)
        if fails:
            break
    fin = runner.finish()
    fin.failures = out.failures + fin.failures
    return fin
