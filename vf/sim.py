"""In-process multi-rank simulator (DESIGN.md section 5).

Every simulated rank is a Python thread on torch's "threaded" process group
(torch.testing._internal.distributed.multi_threaded_pg): dist.get_rank(), new_group, new_subgroups, DeviceMesh, DTensor are the real PyTorch
code paths.  All points at which ranks interact go through *gates* owned by the harness:

  all_gather_into_tensor  -> traced, data moved by the gate's opener
  new_group (3 import sites) -> traced (rank list + innermost repository frames); collective iff all ranks of the world arrive with the same list
  barrier(k)              -> the harness's stand-in for the gradient all-reduce of data-parallel training

A rank that can never be released is *detected* (deadlock monitor, no timeouts): the world is aborted and the waiting ranks are reported.
"""
from __future__ import annotations

import sys
import threading
import traceback
from typing import Any, Callable
from unittest import mock

import torch
import torch.distributed as dist
import torch.distributed.device_mesh as dm
import torch.distributed.distributed_c10d as c10d


class SimAbort(BaseException):
    pass


class World:
    RUN, WAIT, DONE = "run", "wait", "done"

    def __init__(self, W: int):
        self.W = W
        self.cv = threading.Condition()
        self.tl = threading.local()
        self.state = [self.RUN] * W
        self.waiting_on: list[Any] = [None] * W
        self.gates: dict = {}
        self.seq: list[dict] = [dict() for _ in range(W)]
        self.trace: list[list] = [[] for _ in range(W)]
        self.t2: list[dict] = []
        self.deadlock: dict | None = None
        self.aborted = False

    def rank(self) -> int:
        return self.tl.rank

    # ---- gate machinery (all under self.cv)
    def _open(self, key: Any, result: Any) -> None:
        g = self.gates[key]
        g["open"] = True
        g["result"] = result
        for r in g["arrived"]:
            if self.waiting_on[r] == key:
                self.state[r] = self.RUN
                self.waiting_on[r] = None
        self.cv.notify_all()

    def _progress(self) -> None:
        if self.aborted:
            return  # the verdict (deadlock / error) has been recorded; ranks are only unwinding
        while True:
            opened = False
            for key, g in list(self.gates.items()):
                if not g["open"] and set(g["arrived"]) >= g["expected"]:
                    self._open(key, self._resolve(key, g, complete=True))
                    opened = True
            if opened:
                continue
            if any(s == self.RUN for s in self.state):
                return
            if all(s == self.DONE for s in self.state):
                return
            # quiescent and somebody waits: a pending new_group wave is resolved with whoever is there (contract violation, recorded);
            # anything else can never be released -> deadlock
            pend = sorted((k for k, g in self.gates.items() if not g["open"] and k[0] == "new_group"), key=lambda k: k[1])
            if pend:
                self._open(pend[0], self._resolve(pend[0], self.gates[pend[0]], complete=False))
                continue
            self.deadlock = {r: self.waiting_on[r] for r in range(self.W) if self.state[r] == self.WAIT}
            self.aborted = True
            self.cv.notify_all()
            return

    def _resolve(self, key: Any, g: dict, complete: bool) -> Any:
        if key[0] == "new_group":
            lists = {v[0] for v in g["arrived"].values()}
            ok = complete and len(lists) == 1
            if not ok:
                self.t2.append({"wave": key[1], "calls": {r: v for r, v in g["arrived"].items()}})
            return ok
        if key[0] == "all_gather":
            ranks = key[1]
            ins = [g["arrived"][r][1] for r in ranks]
            n = ins[0].numel()
            for r in ranks:
                out = g["arrived"][r][0]
                for i, t in enumerate(ins):
                    out.view(-1)[i * n:(i + 1) * n].copy_(t.view(-1))
            return True
        return True

    def gate(self, key: Any, expected: Any, payload: Any) -> Any:
        r = self.rank()
        with self.cv:
            if self.aborted:
                raise SimAbort()
            g = self.gates.setdefault(key, {"expected": set(expected), "arrived": {}, "open": False, "result": None})
            g["arrived"][r] = payload
            if not g["open"]:
                self.state[r] = self.WAIT
                self.waiting_on[r] = key
                self._progress()
                self.cv.wait_for(lambda: g["open"] or self.aborted)
                if not g["open"]:
                    raise SimAbort()
            return g["result"]

    def nth(self, r: int, what: Any) -> int:
        n = self.seq[r].get(what, 0)
        self.seq[r][what] = n + 1
        return n

    def barrier(self, k: Any) -> None:
        self.gate(("barrier", k), range(self.W), None)

    def done(self) -> None:
        with self.cv:
            r = self.rank()
            self.state[r] = self.DONE
            self.waiting_on[r] = None
            self._progress()


_LOCK = threading.Lock()


def run_world(W: int, fn: Callable[[int, World], Any], join_timeout: float = 120.0) -> tuple[list, dict, list, World]:
    """Run fn(rank, world) on W simulated ranks. Returns (results, errors, still_alive, world)."""
    from torch.testing._internal.distributed.multi_threaded_pg import ProcessLocalGroup, _install_threaded_pg, _uninstall_threaded_pg

    import distributed_shampoo.utils.shampoo_ddp_distributor as m1
    import distributed_shampoo.utils.shampoo_hsdp_distributor as m2
    import distributed_shampoo.utils.shampoo_hybrid_shard_distributor as m3
    from distributed_shampoo.utils import shampoo_dist_utils

    world = World(W)
    with _LOCK:
        _install_threaded_pg()
        torch._C._distributed_c10d._set_thread_isolation_mode(True)
        store = dist.HashStore()
        results: list = [None] * W
        errors: dict = {}
        hook = sys.excepthook
        real_new_group = c10d.new_group

        def ag(output: torch.Tensor, input: torch.Tensor, group: Any = None, async_op: bool = False) -> None:
            r = world.rank()
            ranks = tuple(dist.get_process_group_ranks(group if group is not None else dist.group.WORLD))
            n = world.nth(r, ("ag", ranks))
            world.trace[r].append(("all_gather_into_tensor", ranks, n, output.numel() * output.element_size(), input.numel() * input.element_size()))
            world.gate(("all_gather", ranks, n), ranks, (output, input))

        def new_group(ranks: Any = None, *a: Any, **k: Any) -> Any:
            r = world.rank()
            site = tuple(f.name for f in traceback.extract_stack() if "distributed_shampoo" in f.filename)[-2:]
            rl = tuple(ranks) if ranks is not None else None
            world.trace[r].append(("new_group", rl, site))
            collective = world.gate(("new_group", world.nth(r, "ng")), range(W), (rl, site))
            if not collective:
                k["use_local_synchronization"] = True
            return real_new_group(ranks, *a, **k)

        raw = shampoo_dist_utils.get_device_mesh.__wrapped__
        caches: list[dict] = [dict() for _ in range(W)]

        def gdm(device_type: str, mesh: Any, mesh_dim_names: Any = None) -> Any:
            c = caches[world.rank()]
            key = (device_type, mesh, mesh_dim_names)
            if key not in c:
                c[key] = raw(device_type=device_type, mesh=mesh, mesh_dim_names=mesh_dim_names)
            return c[key]

        def worker(rank: int) -> None:
            world.tl.rank = rank
            try:
                c10d.init_process_group(backend="threaded", rank=rank, world_size=W, store=store)
                results[rank] = fn(rank, world)
            except SimAbort:
                errors[rank] = "abort"
            except BaseException as e:  # noqa: BLE001
                errors[rank] = f"{type(e).__name__}\n" + traceback.format_exc()
                with world.cv:
                    world.aborted = True
                    world.cv.notify_all()
            finally:
                world.done()
                try:
                    c10d.destroy_process_group()
                except Exception:  # noqa: BLE001
                    pass

        patches = [mock.patch.object(m1, "get_device_mesh", gdm), mock.patch.object(m2, "get_device_mesh", gdm), mock.patch.object(m3, "get_device_mesh", gdm),
                   mock.patch.object(dist, "all_gather_into_tensor", ag), mock.patch.object(c10d, "new_group", new_group),
                   mock.patch.object(dm, "new_group", new_group), mock.patch.object(dist, "new_group", new_group)]
        for p in patches:
            p.start()
        try:
            ths = [threading.Thread(target=worker, args=(r,), daemon=True) for r in range(W)]
            for t in ths:
                t.start()
            for t in ths:
                t.join(join_timeout)
            alive = [t.is_alive() for t in ths]
            if any(alive):
                with world.cv:
                    world.aborted = True
                    world.cv.notify_all()
                for t in ths:
                    t.join(5)
        finally:
            for p in reversed(patches):
                p.stop()
            torch._C._distributed_c10d._set_thread_isolation_mode(False)
            _uninstall_threaded_pg()
            ProcessLocalGroup.reset()
            sys.excepthook = hook
    return results, errors, alive, world


# --------------------------------------------------------------------------- trace oracles
F6_SITE = "_allocate_zeros_distributed_tensor"


def check_traces(world: World) -> dict:
    """T1 (collective sequences agree inside every process group) and T2 (new_group is collective) on the recorded traces."""
    res: dict = {"t1": [], "t2_known_f6": 0, "t2_other": [], "n_all_gather": 0, "n_new_group": 0}
    per_group: dict = {}
    for r, tr in enumerate(world.trace):
        for ev in tr:
            if ev[0] == "all_gather_into_tensor":
                per_group.setdefault(ev[1], {}).setdefault(r, []).append((ev[0], ev[3], ev[4]))
                res["n_all_gather"] += 1
            else:
                res["n_new_group"] += 1
    for ranks, by_rank in per_group.items():
        seqs = [by_rank.get(r, []) for r in ranks]
        if any(s != seqs[0] for s in seqs):
            res["t1"].append({"group": ranks, "lengths": [len(s) for s in seqs], "first": [s[:2] for s in seqs]})
    for v in world.t2:
        calls = v["calls"]
        lists = {c[0] for c in calls.values()}
        if len(calls) == world.W and len(lists) == 1:
            continue
        # which calls differ from the majority / are missing
        if all(any(F6_SITE in s for s in c[1]) for c in calls.values()):
            res["t2_known_f6"] += 1
        else:
            res["t2_other"].append({"wave": v["wave"], "calls": {r: (list(c[0]) if c[0] is not None else None, list(c[1])) for r, c in calls.items()}})
    return res
