"""Driving a live DistributedShampoo through a generated history and checking every step against
the one-step-ahead reference model (used by C01, C03, C04 and, partly, C13).

config = {"groups": [{"cfg": <gen.st_config dict>, "shapes": [[...], ...], "inherit": [keys]}, ...], "pseed": int}
step   = gen.st_step dict with mask over *all* parameters (concatenated over groups)
"""
from __future__ import annotations

from typing import Any

import torch

from . import gen, refmodel as rm
from .core import Failure, Outcome

ITERATIVE = ("newton", "higher")
GROUP_KEYS = {
    "lr": "lr", "beta3": "beta3", "epsilon": "epsilon", "momentum": "momentum", "dampening": "dampening", "wd": "weight_decay",
    "mpd": "max_preconditioner_dim", "freq": "precondition_frequency", "start": "start_preconditioning_step",
    "override": "inv_root_override", "nesterov": "use_nesterov", "bias": "use_bias_correction", "decoupled": "use_decoupled_weight_decay",
    "merge": "use_merge_dims",
}


def group_dicts(config: dict, params_per_group: list[list[torch.nn.Parameter]]) -> tuple[list[dict], list[dict]]:
    """Param-group dicts for the constructor and the effective per-group configuration the reference uses.

    Group 0 carries no overrides (it gets the constructor defaults = groups[0].cfg).  Later groups pass every
    hyperparameter explicitly except the keys listed under "inherit", which they leave unset; the reference then uses
    the optimizer-level *resolved* value for those (property C01: a group that leaves beta3 or the start step unset
    inherits the optimizer-level resolved values)."""
    base = config["groups"][0]["cfg"]
    base_eff = gen.effective(base)
    dicts, effs = [], []
    for gi, (g, ps) in enumerate(zip(config["groups"], params_per_group)):
        if gi == 0:
            dicts.append({"params": ps})
            effs.append(dict(base_eff))
            continue
        cfg = g["cfg"]
        inherit = set(g.get("inherit", []))
        d: dict = {"params": ps}
        eff = dict(cfg)
        kw = gen.optimizer_kwargs(cfg)
        # -1 is resolved by the constructor only for its own arguments; a group must pass resolved values or nothing
        if cfg.get("beta3", -1.0) == -1.0:
            inherit.add("beta3")
        if cfg.get("start", -1) == -1:
            inherit.add("start")
        for k, name in GROUP_KEYS.items():
            if k in inherit:
                eff[k] = base_eff[k]
            else:
                d[name] = kw[name]
        if "betas" in inherit:
            eff["beta1"], eff["beta2"] = base_eff["beta1"], base_eff["beta2"]
        else:
            d["betas"] = kw["betas"]
        if "graft" in inherit:
            eff["graft"] = base_eff["graft"]
        else:
            d["grafting_config"] = kw["grafting_config"]
        if "precond" in inherit:
            eff["precond"] = base_eff["precond"]
            eff["override"] = base_eff["override"]
            d.pop("inv_root_override", None)
        else:
            d["preconditioner_config"] = kw["preconditioner_config"]
        if "fdtype" in inherit:
            eff["fdtype"] = base_eff["fdtype"]
        else:
            d["preconditioner_dtype"] = kw["preconditioner_dtype"]
        # a group whose beta1 is 0 has no filtered gradient; beta3 is then irrelevant
        if eff["beta1"] == 0.0:
            eff["beta3"] = 0.0
        # constraints the constructor enforces for its own arguments must also hold for group values
        if eff["start"] < eff["freq"]:
            eff["start"] = eff["freq"]
            d["start_preconditioning_step"] = eff["freq"]
        if eff["precond"].get("ignored") and eff["override"] != 0:
            eff["override"] = 0
            d["inv_root_override"] = 0
        # not a runnable configuration (torch has no bfloat16 kernels for qr / trace): see gen.st_config
        pc = eff["precond"]
        if eff["fdtype"] == "bf16" and ((pc["kind"] == "soap" and pc.get("method") == "qr") or pc.get("solver") in ITERATIVE):
            eff["fdtype"] = "f32"
            d["preconditioner_dtype"] = torch.float32
        dicts.append(d)
        effs.append(eff)
    return dicts, effs


def is_lapack_failure(opt: Any, params: list, e: Exception) -> bool:
    """torch.linalg.eigh occasionally returns NaN for a finite float32 matrix (LAPACK ssyevd, seen on sparse rank-one 64x64 input).
    The optimizer then raises PreconditionerValueError as documented (C13).  That is accepted as the end of a history only when an
    independent eigh call on a stored factor matrix, in the factor dtype, reproduces the non-finite result."""
    if type(e).__name__ != "PreconditionerValueError" or ("inverse factor matrix" not in str(e) and "eigenvectors of factor matrix" not in str(e)):
        return False
    for p in params:
        for k, bs in opt.state[p].items():
            if isinstance(k, str) and k.startswith("block_") and "shampoo" in bs:
                for F in bs["shampoo"].factor_matrices:
                    F = rm.local(F)
                    if F.numel() > 1 and bool(torch.isfinite(F).all()) and F.dtype in (torch.float32, torch.float64):
                        try:
                            L, Q = torch.linalg.eigh(F)
                        except Exception:  # noqa: BLE001
                            return True
                        if not bool(torch.isfinite(L).all() and torch.isfinite(Q).all()):
                            return True
    return False


class OptRunner:
    """Runs one optimizer over a history; `step` returns the failures of that step."""

    PREFIX = "C01"

    def __init__(self, config: dict, check_reference: bool = True, extra: dict | None = None):
        self.config = config
        self.out = Outcome()
        self.check_reference = check_reference
        self.groups = config["groups"]
        self.params: list[list[torch.nn.Parameter]] = []
        self.shapes: list[list[list[int]]] = []
        self.pdts: list[list[torch.dtype]] = []  # per group, per parameter (a group may mix parameter dtypes: "pdtypes")
        for gi, g in enumerate(self.groups):
            names = list(g.get("pdtypes") or [])[: len(g["shapes"])]
            names += [g["cfg"]["pdtype"]] * (len(g["shapes"]) - len(names))
            self.pdts.append([gen.DT[x] for x in names])
            self.params.append(gen.make_params(g["shapes"], config.get("pseed", 0) * 17 + gi, self.pdts[gi], g["cfg"].get("gscale", 1.0)))
            self.shapes.append(g["shapes"])
        dicts, self.eff = group_dicts(config, self.params)
        # frozen parameters (requires_grad=False, e.g. a frozen embedding listed first in its group): never receive a gradient
        self.frozen: list[list[bool]] = []
        for gi, g in enumerate(self.groups):
            fz = list(g.get("frozen") or [])[: len(g["shapes"])]
            fz += [False] * (len(g["shapes"]) - len(fz))
            if all(fz):
                fz[-1] = False
            self.frozen.append(fz)
            for p, z in zip(self.params[gi], fz):
                if z:
                    p.requires_grad_(False)
        # the library's loggers at DEBUG for the duration of the case: message arguments are then evaluated (observability must not change behaviour)
        self._log_levels: list = []
        import logging

        _LIB_LOGGERS = ("distributed_shampoo", "distributed_shampoo.distributed_shampoo", "distributed_shampoo.utils.shampoo_preconditioner_list",
                        "distributed_shampoo.utils.shampoo_distributor", "matrix_functions", "optimizer_modules")
        if not config.get("debug_logging"):
            for name in _LIB_LOGGERS:  # a defined baseline, whatever an earlier case in this worker process left behind
                logging.getLogger(name).setLevel(logging.WARNING)
        if config.get("debug_logging"):
            for name in ("distributed_shampoo", "distributed_shampoo.distributed_shampoo", "distributed_shampoo.utils.shampoo_preconditioner_list",
                         "distributed_shampoo.utils.shampoo_distributor", "matrix_functions", "optimizer_modules"):
                lg = logging.getLogger(name)
                self._log_levels.append((lg, lg.level, lg.propagate, lg.disabled))
                lg.setLevel(logging.DEBUG)
                lg.propagate = False
                lg.disabled = False
                if not any(isinstance(h, logging.NullHandler) for h in lg.handlers):
                    lg.addHandler(logging.NullHandler())
        self.lr_tensor = bool(config.get("lr_tensor"))
        extra = dict(extra or {})
        if self.lr_tensor:
            # the learning rate as a 0-d tensor, which schedulers update in place (torch.optim's tensor-lr convention)
            for d in dicts:
                if "lr" in d:
                    d["lr"] = torch.tensor(d["lr"], dtype=torch.float32)
            extra.setdefault("lr", torch.tensor(self.groups[0]["cfg"]["lr"], dtype=torch.float32))
        self.hp = [dict(e) for e in self.eff]  # current hyperparameters (edited by schedules)
        self.t = [0] * len(self.groups)
        self.dead = False
        self.failed_construct: Failure | None = None
        self.nsteps = 0
        self.stats = {"refresh_steps": 0, "post_refresh_nonrefresh": 0, "mask_changes": 0, "all_absent": 0, "blocks": 0,
                      "nonidentity_refresh": 0, "stale_after_nonidentity": 0, "qr_steps": 0, "equal_shape_partial_mask": 0,
                      "never_updated": 0, "injected_qr_faults": 0, "kept_previous_after_fault": 0}
        self._ever = None
        self._had_refresh = [False] * len(self.groups)
        self._prev_mask: list[bool] | None = None
        try:
            self.opt = gen.build_optimizer(dicts, self.groups[0]["cfg"], **(extra or {}))
        except Exception as e:  # noqa: BLE001
            import traceback

            self.opt = None
            self.dead = True
            self.failed_construct = Failure(f"{self.PREFIX}.construct", f"constructor raised {type(e).__name__}", traceback.format_exc()[-2000:])
            return
        self.layout = []  # per group, per param: (merged dims, [slices])
        for gi, g in enumerate(self.groups):
            e = self.eff[gi]
            self.layout.append([rm.block_slices(s, e["mpd"], e["merge"]) for s in g["shapes"]])
            self.stats["blocks"] += sum(len(sl) for _, sl in self.layout[-1])

    # ------------------------------------------------------------------ helpers
    def start(self) -> list[Failure]:
        return [self.failed_construct] if self.failed_construct else []

    def all_params(self) -> list[torch.nn.Parameter]:
        return [p for ps in self.params for p in ps]

    def block_state(self, p: torch.nn.Parameter, bi: int) -> dict:
        return self.opt.state[p][f"block_{bi}"]

    def apply_edits(self, edits: dict) -> None:
        for gi, grp in enumerate(self.opt.param_groups):
            hp = self.hp[gi]
            if "lr" in edits:
                hp["lr"] = edits["lr"]
                if isinstance(grp["lr"], torch.Tensor):
                    grp["lr"].fill_(edits["lr"])
                else:
                    grp["lr"] = edits["lr"]
            if "wd" in edits:
                grp["weight_decay"] = hp["wd"] = edits["wd"]
            if "momentum_scale" in edits and self.eff[gi].get("momentum", 0.0) != 0.0:
                # momentum changes only between non-zero values or to zero (buffers exist iff the initial value was non-zero)
                new = self.eff[gi]["momentum"] * edits["momentum_scale"]
                grp["momentum"] = hp["momentum"] = new

    def checkpoint_op(self, what: str) -> list[Failure]:
        """'save': keep a serialized distributed state dict + parameter values; 'load': roll the *live, already-stepped* optimizer back to it
        (the loader's documented use: the state is copied into the existing state tensors).  The history then simply continues from the restored
        state: every later step is again checked against the recurrences, so Python-side caches that went stale with the load become visible."""
        import io

        if what == "save":
            try:
                sd = self.opt.distributed_state_dict(key_to_param=iter(self.named_params()))
                buf = io.BytesIO()
                torch.save(sd, buf)
            except Exception as e:  # noqa: BLE001
                import traceback

                self.dead = True
                return [Failure(f"{self.PREFIX}.ckpt.save_raises", f"distributed_state_dict raised {type(e).__name__}", traceback.format_exc()[-2000:])]
            self._ckpt = (buf.getvalue(), [p.detach().clone() for p in self.all_params()], [dict(h) for h in self.hp], list(self.t), list(self._had_refresh))
            self.stats["ckpt_saves"] = self.stats.get("ckpt_saves", 0) + 1
        elif what == "load" and getattr(self, "_ckpt", None) is not None and self.nsteps > 0:
            raw, ws, hp, t, had = self._ckpt
            sd = torch.load(io.BytesIO(raw), weights_only=False)
            try:
                with torch.no_grad():
                    for p, w in zip(self.all_params(), ws):
                        p.copy_(w)
                self.opt.load_distributed_state_dict(sd, key_to_param=iter(self.named_params()))
            except Exception as e:  # noqa: BLE001
                import traceback

                self.dead = True
                return [Failure(f"{self.PREFIX}.ckpt.load_raises", f"loading the optimizer's own earlier checkpoint raised {type(e).__name__}", traceback.format_exc()[-2000:])]
            self.hp, self.t, self._had_refresh = [dict(h) for h in hp], list(t), list(had)
            self._prev_mask = None
            self.stats["ckpt_rollbacks"] = self.stats.get("ckpt_rollbacks", 0) + 1
        return []

    def _mask_frozen(self, mask: list) -> list:
        flat = [z for fz in self.frozen for z in fz]
        return [bool(m) and not z for m, z in zip(mask, flat)]

    def restore_logging(self) -> None:
        import logging

        for lg, level, prop, dis in self._log_levels:
            lg.setLevel(logging.WARNING)
            lg.propagate = prop
            lg.disabled = dis
        self._log_levels = []

    def make_grads(self, s: dict) -> list[list[torch.Tensor | None]]:
        s = dict(s, mask=self._mask_frozen(s["mask"]))
        idx = 0
        grads: list[list[torch.Tensor | None]] = []
        for gi, g in enumerate(self.groups):
            n = len(g["shapes"])
            sub = dict(s)
            sub["mask"] = s["mask"][idx: idx + n]
            sub["gseed"] = s["gseed"] + 1000 * gi
            grads.append(gen.step_grads(g["shapes"], sub, self.pdts[gi]))
            idx += n
        return grads

    def raw_step(self, s: dict) -> Exception | None:
        """Edits + gradients + optimizer.step() without any verification (used by differential oracles)."""
        if s.get("ckpt"):
            f = self.checkpoint_op(s["ckpt"])
            if f:
                return RuntimeError(f[0].signature)
        if "edits" in s:
            self.apply_edits(s["edits"])
        grads = self.make_grads(s)
        for gi, ps in enumerate(self.params):
            for p, g in zip(ps, grads[gi]):
                p.grad = None if g is None else g.clone()
        try:
            self.opt.step()
        except Exception as e:  # noqa: BLE001
            return e
        for gi, ps in enumerate(self.params):
            if any(g is not None for g in grads[gi]):
                self.t[gi] += 1
        self.nsteps += 1
        return None

    def named_params(self) -> list[tuple[str, torch.nn.Parameter]]:
        return [(f"g{gi}.p{pi}", p) for gi, ps in enumerate(self.params) for pi, p in enumerate(ps)]

    # ------------------------------------------------------------------ one step
    def step(self, s: dict) -> list[Failure]:
        if self.dead:
            return []
        fails: list[Failure] = []
        P = self.PREFIX
        if s.get("ckpt"):
            fails = self.checkpoint_op(s["ckpt"])
            if fails:
                return fails
        if "edits" in s:
            self.apply_edits(s["edits"])
        mask = self._mask_frozen(s["mask"])
        if self._prev_mask is not None and mask != self._prev_mask and any(mask) and any(self._prev_mask):
            self.stats["mask_changes"] += 1
        if not any(mask):
            self.stats["all_absent"] += 1
        self._prev_mask = list(mask)
        self._ever = list(mask) if self._ever is None else [a or b for a, b in zip(self._ever, mask)]
        idx0 = 0
        for g in self.groups:
            shp = [tuple(x) for x in g["shapes"]]
            mk = mask[idx0: idx0 + len(shp)]
            idx0 += len(shp)
            for sh in set(shp):
                ms = [m for x, m in zip(shp, mk) if x == sh]
                if len(ms) >= 2 and any(ms) and not all(ms):
                    self.stats["equal_shape_partial_mask"] += 1
        # gradients
        idx = 0
        grads: list[list[torch.Tensor | None]] = []
        for gi, g in enumerate(self.groups):
            n = len(g["shapes"])
            sub = dict(s)
            sub["mask"] = mask[idx: idx + n]
            sub["gseed"] = s["gseed"] + 1000 * gi
            grads.append(gen.step_grads(g["shapes"], sub, self.pdts[gi]))
            idx += n
        # snapshots
        prev: dict = {}
        for gi, ps in enumerate(self.params):
            for pi, p in enumerate(ps):
                md, sls = self.layout[gi][pi]
                p.grad = None if grads[gi][pi] is None else grads[gi][pi].clone()
                prev[(gi, pi)] = {
                    "w": p.detach().clone(),
                    "state": rm.clone_walk(self.opt.state[p]),
                    "blocks": [rm.snap_block(self.block_state(p, bi)) for bi in range(len(sls))] if self._blocks_ok(p, len(sls)) else None,
                }
        steps_before = [int(self.opt.state[ps[0]]["step"].item()) for ps in self.params]
        # a history whose parameters have grown by more than eight orders of magnitude has diverged (e.g. coupled decay with lr ~ 1 and roots ~1e10):
        # state then sits at the edges of the exponent range (subnormal roots, factors ~1e23) where the rounding model of the reference stops being
        # meaningful.  The history ends here and is counted; everything up to this step has been checked.
        gs0 = max(1.0, float(self.groups[0]["cfg"].get("gscale", 1.0)))
        wmax = max((float(p.detach().abs().max()) for p in self.all_params() if p.numel()), default=0.0)
        if not (wmax <= 1e8 * gs0):
            self.dead = True
            self.out.classes.append("diverged_history")
            return fails
        # optional fault injection (C03): the k-th torch.linalg.qr call of this step raises, i.e. one orthogonal-iteration refresh fails part-way;
        # the optimizer documents that it then keeps the previous eigenvectors of that factor and continues (up to the configured tolerance)
        self._fault_fired = False
        fault_k = s.get("qr_fault")
        real_qr = torch.linalg.qr
        if fault_k:
            calls = [0]

            def faulty_qr(*a: Any, **k: Any) -> Any:
                calls[0] += 1
                if calls[0] == fault_k:
                    self._fault_fired = True
                    raise torch.linalg.LinAlgError("vf: injected failure of torch.linalg.qr")
                return real_qr(*a, **k)

            torch.linalg.qr = faulty_qr
        try:
            try:
                self.opt.step()
            finally:
                torch.linalg.qr = real_qr
                if self._fault_fired:
                    self.stats["injected_qr_faults"] += 1
        except Exception as e:  # noqa: BLE001
            self.dead = True
            if self._fault_fired and isinstance(e, ValueError) and "exceeded the allowed tolerance" in str(e) \
                    and self.stats["injected_qr_faults"] > min(g_["precond"].get("tol", 3) for g_ in self.hp):
                self.out.classes.append("failure_tolerance_exceeded_after_injected_faults")
                return fails
            if self._is_solver_giving_up(e):
                self.out.classes.append("iterative_solver_gave_up")
                return fails
            if self._is_overflow(e, prev, grads):
                self.out.classes.append("overflow_domain")
                return fails
            if self._is_lapack_failure(e):
                self.out.classes.append("lapack_eigh_returned_nan")
                return fails
            import traceback

            tb = traceback.extract_tb(e.__traceback__)
            inner = [f for f in tb if "/vf/" not in f.filename]
            site = f"{inner[-1].filename.split('/')[-1]}:{inner[-1].name}" if inner else "?"
            fails.append(Failure(f"{P}.step_raises", f"step raised {type(e).__name__} at {site}", traceback.format_exc()[-3000:]))
            return fails
        self.nsteps += 1
        # verification
        for gi, ps in enumerate(self.params):
            hp = self.hp[gi]
            has = any(g is not None for g in grads[gi])
            want_step = steps_before[gi] + (1 if has else 0)
            got_step = int(self.opt.state[ps[0]]["step"].item())
            if got_step != want_step:
                fails.append(Failure(f"{P}.c.step_counter", "group step counter", f"group {gi}: step {got_step}, expected {want_step}", got_step, want_step))
                self.dead = True
                return fails
            self.t[gi] = want_step
            t = want_step
            refresh = has and rm.is_refresh(t, hp["start"], hp["freq"])
            if has and refresh:
                self.stats["refresh_steps"] += 1
                self._had_refresh[gi] = True
            elif has and self._had_refresh[gi]:
                self.stats["post_refresh_nonrefresh"] += 1
                if self.stats["nonidentity_refresh"]:
                    self.stats["stale_after_nonidentity"] += 1
            fd = gen.DT[hp["fdtype"]]
            for pi, p in enumerate(ps):
                pd = self.pdts[gi][pi]
                pv = prev[(gi, pi)]
                md, sls = self.layout[gi][pi]
                if pv["blocks"] is None:
                    fails.append(Failure(f"{P}.layout", "number of blocks differs from the documented blocking", f"group {gi} param {pi} shape {self.shapes[gi][pi]}"))
                    self.dead = True
                    return fails
                if grads[gi][pi] is None:
                    fails.extend(self._check_untouched(gi, pi, p, pv))
                    continue
                if not self.check_reference:
                    continue
                wv = p.detach().view(md) if md != tuple(p.shape) else p.detach()
                gv = grads[gi][pi].view(md)
                w0 = pv["w"].view(md)
                for bi, sl in enumerate(sls):
                    post = rm.snap_block(self.block_state(p, bi))
                    pre = pv["blocks"][bi]
                    fails.extend(self._check_block(gi, pi, bi, pre, post, gv[sl], w0[sl], wv[sl], hp, t, pd, fd, refresh))
        if fails:
            self.dead = True
        return fails

    def _blocks_ok(self, p: torch.nn.Parameter, n: int) -> bool:
        keys = [k for k in self.opt.state[p] if isinstance(k, str) and k.startswith("block_")]
        return len(keys) == n and all(f"block_{i}" in self.opt.state[p] for i in range(n))

    def _is_solver_giving_up(self, e: Exception) -> bool:
        """Iterative solvers (coupled Newton / higher order) make no accuracy claim when they do not converge: they may
        exhaust the failure tolerance or produce NaN/Inf, which the optimizer reports as (Preconditioner)ValueError."""
        solvers = {h["precond"].get("solver") for h in self.hp if h["precond"]["kind"] == "shampoo"}
        return isinstance(e, ValueError) and bool(solvers & set(ITERATIVE)) and (
            "exceeded the allowed tolerance" in str(e) or "Encountered nan or inf values in inverse factor matrix" in str(e))

    def _is_lapack_failure(self, e: Exception) -> bool:
        return is_lapack_failure(self.opt, self.all_params(), e)

    def _is_overflow(self, e: Exception, prev: dict, grads: list) -> bool:
        """PreconditionerValueError for inf/nan in a factor matrix is the documented response to divergence; it is outside the
        property's domain (finite arithmetic) when the float64 model itself leaves the finite range of the factor dtype."""
        if type(e).__name__ != "PreconditionerValueError" or "in factor matrix" not in str(e):
            return False
        for gi, ps in enumerate(self.params):
            hp = self.hp[gi]
            fmax = 1e-3 * float(torch.finfo(gen.DT[hp["fdtype"]]).max)
            for pi, p in enumerate(ps):
                pmax = 1e-3 * float(torch.finfo(self.pdts[gi][pi]).max)
                g = grads[gi][pi]
                if g is None:
                    continue
                g = g.double()
                w = prev[(gi, pi)]["w"].double()
                if hp.get("wd", 0.0) != 0.0 and not hp.get("decoupled", True):
                    g = g + hp["wd"] * w
                peak = float(g.abs().max()) if g.numel() else 0.0
                fro2 = float((g * g).sum())
                old = max([float(v.double().abs().max()) for k, v in prev[(gi, pi)]["state"].items() if "factor_matrices" in k and v.numel()] + [0.0])
                if not (peak == peak) or peak > pmax or fro2 + old > fmax or peak * peak > pmax:
                    return True
        return False

    def _check_untouched(self, gi: int, pi: int, p: torch.nn.Parameter, pv: dict) -> list[Failure]:
        P = self.PREFIX
        fails = []
        if not rm.bitwise_equal(p.detach(), pv["w"]):
            fails.append(Failure(f"{P}.untouched.param", "parameter without gradient changed", f"group {gi} param {pi}"))
        now = rm.walk(self.opt.state[p])
        if set(now) != set(pv["state"]):
            fails.append(Failure(f"{P}.untouched.state", "state keys changed for a parameter without gradient", f"group {gi} param {pi}"))
            return fails
        for path, tns in now.items():
            if path == ("step",):
                continue
            if not rm.bitwise_equal(rm.local(tns).detach(), pv["state"][path]):
                fails.append(Failure(f"{P}.untouched.state", f"state {path[-2] if len(path) > 1 else path[-1]} of a parameter without gradient changed", f"group {gi} param {pi} path {path}"))
                break
        return fails

    def _check_block(self, gi, pi, bi, pre: rm.BlockSnap, post: rm.BlockSnap, g, w0, w1, hp, t, pd, fd, refresh) -> list[Failure]:
        P = self.PREFIX
        fails: list[Failure] = []
        where = f"group {gi} param {pi} block {bi} step {t} shape {list(g.shape)} dtypes {str(pd).split('.')[-1]}/{hp['fdtype']}"
        comps = rm.predict_block(pre, post, g, w0, w1, hp, t, pd, fd)
        if any(c.name == "overflow_domain" for c in comps):
            # the documented update itself leaves the finite range of the parameter dtype: outside the property's domain
            self.out.classes.append("overflow_domain")
            self.dead = True
            return []
        soap = hp["precond"]["kind"] == "soap"
        order = g.dim()
        ignored = hp["precond"].get("ignored", [])
        pdims = [d for d in range(order) if d not in ignored]
        bc2, dbc2 = rm.bias_corr(hp["beta2"], t, hp.get("bias", True))
        if not soap:
            root = rm.roots_for(hp, order) / hp["precond"].get("mult", 1.0)
            for j in range(len(pdims)):
                if len(post.inv) <= j or len(pre.inv) <= j:
                    break
                if refresh:
                    if hp["precond"].get("solver", "eigen") in ITERATIVE:
                        if not bool(torch.isfinite(post.inv[j]).all()):
                            comps.append(rm.Comp("inv_root.finite", float("inf"), 1.0))
                        continue
                    c = rm.check_inv_root("inv_root", post.f("factor")[j], post.inv[j], root, hp["epsilon"], bc2, dbc2, rm.eps_of(fd), rm.eps_of(pd))
                    comps.append(c)
                    self.out.classes.append("inv_root_informative" if c.informative else "inv_root_uninformative")
                elif not rm.bitwise_equal(post.inv[j], pre.inv[j]):
                    fails.append(Failure(f"{P}.b.held_fixed", "inverse root changed on a non-refresh step", where))
        else:
            for j in range(len(pdims)):
                if len(post.eigvec) <= j or len(pre.eigvec) <= j:
                    break
                if refresh and getattr(self, "_fault_fired", False) and bool(pre.eigvec[j].any()) and rm.bitwise_equal(post.eigvec[j], pre.eigvec[j]):
                    # an injected QR failure fired during this step: a factor whose stored basis is bitwise the previous one is the documented
                    # "using previous factor matrix eigenvectors"; anything else (in particular a half-updated basis) goes through check_basis
                    self.out.classes.append("kept_previous_basis_after_injected_failure")
                    self.stats["kept_previous_after_fault"] += 1
                    continue
                if refresh:
                    expect_id = pre.diag[j] and _is_diag(post.factor[j])
                    cs, cl = rm.check_basis("basis", post.factor[j], pre.eigvec[j], post.eigvec[j], hp["precond"], pd, fd, expect_id)
                    comps.extend(cs)
                    self.out.classes.extend(cl)
                    if not expect_id and post.eigvec[j].shape[0] > 1:
                        self.stats["nonidentity_refresh"] += 1
                    if "qr_step" in cl:
                        self.stats["qr_steps"] += 1
                elif not rm.bitwise_equal(post.eigvec[j], pre.eigvec[j]):
                    fails.append(Failure(f"{P}.b.held_fixed", "eigenbasis changed on a non-refresh step", where))
        for c in comps:
            self.out.sub_evaluations += 1
            if c.informative and c.bound < float("inf"):
                self.out.metric(f"ratio/{c.name}", c.ratio if c.ratio != float("inf") else 1e300)
            if c.hard and c.informative and c.dev > rm.K_TOL * c.bound:
                fails.append(Failure(f"{P}.a.{c.name}", f"{c.name} deviates from the documented recurrence",
                                     f"{where}: deviation {c.dev:.3e} > {rm.K_TOL} x bound {c.bound:.3e}", c.dev, c.bound))
        return fails

    # ------------------------------------------------------------------ end of history
    def nontrivial_rule(self) -> bool:
        st = self.stats
        return st["refresh_steps"] >= 1 and st["post_refresh_nonrefresh"] >= 1 and st["blocks"] >= 2

    def finish(self) -> Outcome:
        out = self.out
        st = self.stats
        if self._log_levels:
            out.classes.append("library_loggers_at_debug")
            self.restore_logging()
        if any(any(fz) for fz in self.frozen):
            out.classes.append("frozen_parameter" + ("_first_in_group" if any(fz[0] for fz in self.frozen) else ""))
        out.nontrivial = self.nontrivial_rule()
        cl = out.classes
        if st["equal_shape_partial_mask"]:
            cl.append("equal_shape_partial_mask")
        if self._ever is not None and not all(self._ever):
            cl.append("never_updated_param")
        if st["stale_after_nonidentity"]:
            cl.append("stale_nonidentity_basis_used")
        if st["qr_steps"] >= 1:
            cl.append("real_qr_refresh")
        if st["mask_changes"]:
            cl.append("mask_change")
        if st["all_absent"]:
            cl.append("all_absent_step")
        if len(self.groups) > 1:
            cl.append("multi_group")
        if any(len(set(d)) > 1 for d in self.pdts):
            cl.append("mixed_param_dtypes_in_group")
        if self.lr_tensor:
            cl.append("lr_tensor")
        if st.get("ckpt_rollbacks"):
            cl.append("rollback_into_live_optimizer")
        for e in self.eff:
            cl.append(f"graft_{e['graft']['type'] if e['graft'] else 'none'}")
            cl.append(f"dtypes_{e['pdtype']}/{e['fdtype']}")
            pc = e["precond"]
            cl.append(f"precond_{pc['kind']}_{pc.get('solver', pc.get('method'))}")
            if pc.get("ignored"):
                cl.append("ignored_dims")
            if isinstance(e.get("override"), list):
                cl.append("override_list")
            elif e.get("override"):
                cl.append("override_int")
            if e["momentum"]:
                cl.append("momentum" + ("_nesterov" if e["nesterov"] else "") + ("_dampening" if e["dampening"] else ""))
            if e["wd"]:
                cl.append("wd_decoupled" if e["decoupled"] else "wd_coupled")
            if e["beta1"] and e["beta3"] != e["beta1"]:
                cl.append("beta3_ne_beta1")
            if not e["bias"]:
                cl.append("no_bias_correction")
        for gi, lay in enumerate(self.layout if self.opt is not None else []):
            for (md, sls), shp in zip(lay, self.shapes[gi]):
                cl.append(f"block_order{len(md)}")
                if len(sls) > 1:
                    cl.append("split")
                if tuple(md) != tuple(shp):
                    cl.append("merged")
        out.classes = sorted(set(cl)) + [c for c in cl if c.startswith("inv_root_")][:0]
        return out


def _is_diag(F: torch.Tensor) -> bool:
    return not bool(F.triu(1).any()) and not bool(F.tril(-1).any())


def st_history_config(max_groups: int = 3, max_params: int = 4, max_numel: int = 300, mixed_dtypes: bool = True, lr_tensor: bool = True, **cfg_kwargs: Any):
    """Hypothesis strategy for OptRunner configs."""
    from hypothesis import strategies as st

    INHERITABLE = ["beta3", "start", "lr", "wd", "momentum", "betas", "graft", "precond", "fdtype", "bias", "decoupled", "merge", "epsilon"]

    @st.composite
    def config(draw: Any) -> dict:
        ng = draw(st.sampled_from([1, 1, 1, 2, 3][: 2 + max_groups]))
        ng = min(ng, max_groups)
        groups = []
        gscale = draw(st.sampled_from([1.0, 1.0, 1.0, 1e-3, 1e3, 0.1, 30.0, 1e-5]))
        for gi in range(ng):
            cfg = draw(gen.st_config(gscale=gscale, **cfg_kwargs))
            npar = draw(st.integers(1, max_params))
            shapes = [draw(gen.st_shape(cfg["mpd"], max_numel=max_numel)) for _ in range(npar)]
            if npar >= 2 and draw(st.booleans()):
                shapes[1] = list(shapes[0])  # forced class: equal-shaped parameters
            g = {"cfg": cfg, "shapes": shapes}
            if npar >= 2 and mixed_dtypes and draw(st.sampled_from([False, False, False, True])):
                # a group may hold parameters of different dtypes (mixed-precision models); the first one keeps the group's nominal dtype
                g["pdtypes"] = [cfg["pdtype"]] + [draw(st.sampled_from(["f32", "bf16", "f64", "f32"])) for _ in range(npar - 1)]
            if gi > 0:
                g["inherit"] = sorted(draw(st.sets(st.sampled_from(INHERITABLE), max_size=4)))
                if "momentum" in g["inherit"]:
                    # dampening / nesterov come with momentum
                    g["inherit"] = sorted(set(g["inherit"]) | {"dampening", "nesterov"})
            groups.append(g)
        c = {"groups": groups, "pseed": draw(st.integers(0, 10**6))}
        gb = draw(st.sampled_from([None, None, None, "rowsparse", "rowsparse", "onehot", "sparse", "rank1"]))
        if draw(st.sampled_from([False] * 7 + [True])):
            c["debug_logging"] = True
        if draw(st.sampled_from([False] * 7 + [True])):
            gz = groups[draw(st.integers(0, len(groups) - 1))]
            if len(gz["shapes"]) >= 2:
                gz["frozen"] = [True] + [draw(st.sampled_from([False, False, True])) for _ in gz["shapes"][1:]]
        if lr_tensor and draw(st.sampled_from([False] * 5 + [True])):
            c["lr_tensor"] = True  # learning rate held as a 0-d tensor and edited in place by the schedule
        if gb is not None:
            c["gbias"] = gb  # most steps of this history use one structured gradient kind (stable sparsity patterns, sticky diagonal flags)
        return c

    return config()


def st_history_step(runner: OptRunner, checkpoints: bool = True, **kw: Any):
    n = sum(len(g["shapes"]) for g in runner.groups)
    gscale = runner.groups[0]["cfg"].get("gscale", 1.0)
    from hypothesis import strategies as st

    base = gen.st_step(n, gscale, gbias=runner.config.get("gbias"), **kw)
    if not checkpoints or runner.lr_tensor:
        return base
    # a checkpoint is taken early with probability 1/4 per step; once one exists it is rolled back to in about every fifth step
    ops = ([None] * 6 + ["save"] * 2) if getattr(runner, "_ckpt", None) is None else ([None] * 9 + ["load"] * 3 + ["save"])

    def add(s: dict, op: Any) -> dict:
        if op is not None:
            s = dict(s)
            s["ckpt"] = op
        return s

    return st.builds(add, base, st.sampled_from(ops))
