"""Shared generators (Hypothesis strategies producing JSON-serialisable cases) and the builders that
turn a case into tensors / configuration objects / an optimizer of the code under test.

All randomness is Hypothesis': tensors are *recipes* (kind, seed, scale) expanded with a seeded
torch.Generator, so a case is a pure function of Hypothesis choices, shrinks and serialises.
"""
from __future__ import annotations

import math
from typing import Any

import torch

DT = {"f32": torch.float32, "f64": torch.float64, "bf16": torch.bfloat16, "f16": torch.float16}
INF_STEP = 10**9  # "never start preconditioning"


# --------------------------------------------------------------------------- tensors
def make_tensor(shape, kind: str, seed: int, scale: float, dtype: torch.dtype) -> torch.Tensor:
    """Deterministic tensor from a recipe. Generated in float64, then cast."""
    shape = tuple(shape)
    g = torch.Generator().manual_seed(int(seed) % (2**31))
    n = math.prod(shape)
    if kind == "gauss":
        t = torch.randn(shape, generator=g, dtype=torch.float64)
    elif kind == "zeros":
        t = torch.zeros(shape, dtype=torch.float64)
    elif kind == "onehot":
        t = torch.zeros(n, dtype=torch.float64)
        if n:
            t[int(seed) % n] = 1.0 if (seed // 7) % 2 == 0 else -1.0
        t = t.reshape(shape)
    elif kind == "const":
        t = torch.full(shape, 1.0 if seed % 2 == 0 else -0.5, dtype=torch.float64)
    elif kind == "rank1":
        t = torch.ones((), dtype=torch.float64)
        for i, d in enumerate(shape):
            v = torch.randn(d, generator=g, dtype=torch.float64)
            t = torch.tensordot(t, v, dims=0) if i else v
        if not shape:
            t = torch.randn((), generator=g, dtype=torch.float64)
    elif kind == "sparse":
        t = torch.randn(shape, generator=g, dtype=torch.float64)
        m = torch.rand(shape, generator=g, dtype=torch.float64) < 0.3
        t = t * m
    elif kind == "rowsparse":
        # only two or three slices along one dimension are non-zero (embedding rows, masked / grouped layers): the mode's Gram matrix has a small
        # dense non-diagonal block whose position depends on the active slices (neighbouring or not)
        t = torch.zeros(shape, dtype=torch.float64)
        if len(shape) >= 1 and n:
            dim = int(seed) % len(shape)
            d = shape[dim]
            # the active slices depend on the shape only, so that the sparsity pattern of the Gram matrix is stable over a history
            gp = torch.Generator().manual_seed(sum((i + 1) * x for i, x in enumerate(shape)) * 7 + len(shape))
            dim = int(torch.randint(0, len(shape), (1,), generator=gp))
            d = shape[dim]
            k = min(d, 2 + int(torch.randint(0, 2, (1,), generator=gp)))
            idx = torch.randperm(d, generator=gp)[:k]
            sl = [slice(None)] * len(shape)
            vals = torch.randn(shape, generator=g, dtype=torch.float64)
            for i in idx.tolist():
                sl[dim] = i
                t[tuple(sl)] = vals[tuple(sl)]
        elif n:
            t = torch.randn(shape, generator=g, dtype=torch.float64)
    elif kind == "ints":
        t = torch.randint(-3, 4, shape, generator=g).to(torch.float64)
    else:
        raise ValueError(kind)
    return (t * scale).to(dtype)


GRAD_KINDS = ["gauss", "gauss", "gauss", "onehot", "rank1", "sparse", "rowsparse", "rowsparse", "const", "ints", "zeros"]


def f32(x: float) -> float:
    """Round to the nearest float32-representable value (as a Python float)."""
    return float(torch.tensor(x, dtype=torch.float32).item())


# --------------------------------------------------------------------------- strategies
def st_f32(lo: float, hi: float):
    from hypothesis import strategies as st

    import struct

    def r32(x: float, up: bool) -> float:
        y = struct.unpack("f", struct.pack("f", x))[0]
        if (up and y < x) or (not up and y > x):
            y = float(torch.nextafter(torch.tensor(y, dtype=torch.float32), torch.tensor(float("inf") if up else float("-inf"), dtype=torch.float32)))
        return y

    return st.floats(r32(lo, True), r32(hi, False), allow_nan=False, allow_infinity=False, width=32)


def st_beta_lt1(allow_zero: bool = True):
    from hypothesis import strategies as st

    opts = [st.sampled_from([0.5, 0.9, 0.99, 0.999]), st.floats(0.01, 0.999)]
    if allow_zero:
        opts.insert(0, st.just(0.0))
    return st.one_of(*opts)


def st_shape(mpd: int, max_order: int = 4, max_numel: int = 300, min_order: int = 0):
    """Shapes biased to {1,2,3,m,m+1,2m,2m+1} around the block-size threshold m."""
    from hypothesis import strategies as st

    cands = sorted({1, 2, 3, mpd, mpd + 1, 2 * mpd, 2 * mpd + 1})

    @st.composite
    def shape(draw: Any) -> list[int]:
        order = draw(st.integers(min_order, max_order))
        out: list[int] = []
        prod = 1
        for _ in range(order):
            d = draw(st.one_of(st.sampled_from(cands), st.integers(1, 9)))
            while prod * d > max_numel and d > 1:
                d = max(1, d // 2)
            out.append(d)
            prod *= d
        return out

    return shape()


def st_graft(scale2: float = 1.0, types=("none", "sgd", "adagrad", "rmsprop", "adam")):
    from hypothesis import strategies as st

    eps = st.one_of(st.sampled_from([1e-10, 1e-8, 1e-3]), st.floats(-8, 0).map(lambda e: 10.0**e * math.sqrt(scale2)))

    def mk(t: str):
        if t == "none":
            return st.none()
        if t == "sgd":
            return st.just({"type": "sgd"})
        if t == "adagrad":
            return st.fixed_dictionaries({"type": st.just("adagrad"), "eps": eps})
        b2 = st.one_of(st.sampled_from([0.9, 0.99, 0.999, 1.0]), st.floats(0.05, 0.999))
        return st.fixed_dictionaries({"type": st.just(t), "eps": eps, "beta2": b2})

    return st.sampled_from(list(types)).flatmap(mk)


def st_precond(kinds=("shampoo", "soap"), allow_ignored: bool = True, solvers=("eigen", "eigen", "eigen_stab", "newton", "higher"),
               methods=("eigh", "qr")):
    from hypothesis import strategies as st

    @st.composite
    def pc(draw: Any) -> dict:
        kind = draw(st.sampled_from(list(kinds)))
        ignored = draw(st.one_of(st.just([]), st.lists(st.integers(0, 3), max_size=3, unique=True))) if allow_ignored else []
        tol = draw(st.sampled_from([3, 0, 1]))
        if kind == "shampoo":
            solver = draw(st.sampled_from(list(solvers)))
            d: dict = {"kind": "shampoo", "solver": solver, "ignored": sorted(ignored), "tol": tol}
            if solver in ("eigen", "eigen_stab"):
                d["mult"] = draw(st.sampled_from([1.0, 1.0, 1.82, 0.5, 2.0]))
            elif solver == "newton":
                d["max_it"] = draw(st.sampled_from([100, 30]))
                d["ntol"] = draw(st.sampled_from([1e-6, 1e-4]))
            else:
                d["order"] = draw(st.integers(2, 4))
                d["max_it"] = 100
                d["ntol"] = draw(st.sampled_from([1e-8, 1e-6]))
                d["rel_eps"] = draw(st.sampled_from([0.0, 1e-6]))
            return d
        method = draw(st.sampled_from(list(methods)))
        d = {"kind": "soap", "method": method, "ignored": sorted(ignored), "tol": tol}
        if method == "qr":
            d["max_it"] = draw(st.integers(1, 5))
            d["qr_tol"] = draw(st.sampled_from([1e-5, 1e-2, 1e-8]))
        return d

    return pc()


def st_config(kinds=("shampoo", "soap"), dtypes=(("f32", "f32"), ("f64", "f64"), ("f32", "f64"), ("f64", "f32"), ("bf16", "f32"), ("f32", "bf16"), ("bf16", "bf16"), ("bf16", "f64"), ("f64", "bf16")),
              graft_types=("none", "sgd", "adagrad", "rmsprop", "adam"), solvers=("eigen", "eigen", "eigen_stab", "newton", "higher"),
              methods=("eigh", "qr"), allow_ignored: bool = True, allow_override: bool = True, max_mpd: int = 9, gscale: float | None = None):
    """One optimizer configuration (a single param group's effective hyperparameters)."""
    from hypothesis import strategies as st

    @st.composite
    def cfg(draw: Any) -> dict:
        mpd = draw(st.one_of(st.integers(1, max_mpd), st.sampled_from([2, 3, 4, 1024])))
        gs = gscale if gscale is not None else draw(st.sampled_from([1.0, 1.0, 1.0, 1e-3, 1e3, 0.1, 30.0, 1e-5]))
        precond = draw(st_precond(kinds, allow_ignored, solvers, methods))
        pd, fd = draw(st.sampled_from(list(dtypes)))
        if precond["kind"] == "shampoo" and precond["solver"] in ("newton", "higher") and fd == "bf16":
            fd = "f32"  # torch has no bfloat16 kernels for trace / the iterations' tolerances: not a runnable configuration
        if precond["kind"] == "soap" and precond.get("method") == "qr" and fd == "bf16":
            fd = "f32"  # torch.linalg.qr has no bfloat16 kernel (CPU or CUDA): every QR refresh would be a tolerated failure (C13 territory)
        beta1 = draw(st_beta_lt1())
        beta3 = draw(st.one_of(st.just(-1.0), st_beta_lt1())) if beta1 != 0.0 else -1.0
        freq = draw(st.integers(1, 4))
        start = draw(st.one_of(st.just(-1), st.integers(freq, freq + 4), st.just(INF_STEP)))
        override: Any = 0
        if allow_override and not precond["ignored"]:
            override = draw(st.one_of(st.just(0), st.just(0), st.integers(1, 6), st.lists(st.integers(1, 6), min_size=0, max_size=5)))
        # epsilon relative to the gradient scale so that inverse roots stay informative in most cases
        eps_rel = draw(st.one_of(st.floats(-8, 0).map(lambda e: 10.0**e), st.just(1e-12)))
        momentum = draw(st.one_of(st.just(0.0), st.sampled_from([0.5, 0.9]), st.floats(0.01, 0.99)))
        return {
            "lr": draw(st.one_of(st.sampled_from([0.0078125, 0.1, 1.0, 0.0]), st_f32(1e-4, 1.0))),
            "beta1": beta1,
            "beta2": draw(st.one_of(st.just(1.0), st.just(1.0), st.sampled_from([0.9, 0.99, 0.999]), st.floats(0.05, 0.999))),
            "beta3": beta3,
            "epsilon": eps_rel * gs * gs if eps_rel != 1e-12 else 1e-12,
            "momentum": momentum,
            "dampening": draw(st.one_of(st.just(0.0), st.floats(0.01, 0.9))) if momentum else 0.0,
            "nesterov": draw(st.booleans()) if momentum else False,
            "wd": draw(st.one_of(st.just(0.0), st.sampled_from([0.01, 0.3]), st.floats(1e-4, 0.5))),
            "decoupled": draw(st.booleans()),
            "bias": draw(st.booleans()),
            "graft": draw(st_graft(gs * gs, graft_types)),
            "mpd": mpd,
            "merge": draw(st.booleans()),
            "freq": freq,
            "start": start,
            "override": override,
            "precond": precond,
            "pdtype": pd,
            "fdtype": fd,
            "gscale": gs,
        }

    return cfg()


def st_step(nparams: int, gscale: float, force_any: bool = False, edits: bool = True, allow_absent: bool = True, gbias: str | None = None):
    """One optimizer step: which parameters have gradients, gradient recipes, optional hyperparameter edits."""
    from hypothesis import strategies as st

    @st.composite
    def step(draw: Any) -> dict:
        mode = draw(st.sampled_from(["all", "all", "all", "random", "random", "none"])) if allow_absent else "all"
        if mode == "all":
            mask = [True] * nparams
        elif mode == "none":
            mask = [False] * nparams
        else:
            mask = [draw(st.booleans()) for _ in range(nparams)]
        if force_any and not any(mask):
            mask[draw(st.integers(0, nparams - 1))] = True
        s: dict = {
            "mask": mask,
            "gseed": draw(st.integers(0, 10**6)),
            "gkind": (gbias if (gbias is not None and draw(st.integers(0, 9)) < 8) else draw(st.sampled_from(GRAD_KINDS))),
            "gscale": gscale * draw(st.sampled_from([1.0, 1.0, 1.0, 0.1, 10.0])),
        }
        if edits and draw(st.integers(0, 5)) == 0:
            e: dict = {}
            if draw(st.booleans()):
                e["lr"] = draw(st.one_of(st.sampled_from([0.0, 0.5, 0.01]), st_f32(1e-4, 1.0)))
            if draw(st.booleans()):
                e["wd"] = draw(st.sampled_from([0.0, 0.1, 0.02]))
            if draw(st.booleans()):
                e["momentum_scale"] = draw(st.sampled_from([0.0, 0.5, 1.0]))
            if e:
                s["edits"] = e
        return s

    return step()


# --------------------------------------------------------------------------- builders
def build_graft(g: dict | None):
    from distributed_shampoo.shampoo_types import AdaGradGraftingConfig, AdamGraftingConfig, RMSpropGraftingConfig, SGDGraftingConfig

    if g is None:
        return None
    t = g["type"]
    if t == "sgd":
        return SGDGraftingConfig()
    if t == "adagrad":
        return AdaGradGraftingConfig(epsilon=g["eps"])
    if t == "rmsprop":
        return RMSpropGraftingConfig(beta2=g["beta2"], epsilon=g["eps"])
    if t == "adam":
        return AdamGraftingConfig(beta2=g["beta2"], epsilon=g["eps"])
    raise ValueError(t)


def build_precond(p: dict):
    from distributed_shampoo.shampoo_types import EigenvalueCorrectedShampooPreconditionerConfig, ShampooPreconditionerConfig
    from matrix_functions_types import CoupledHigherOrderConfig, CoupledNewtonConfig, EigenConfig, EighEigenvectorConfig, QRConfig

    common = dict(num_tolerated_failed_amortized_computations=p.get("tol", 3), ignored_dims=list(p.get("ignored", [])))
    if p["kind"] == "shampoo":
        s = p.get("solver", "eigen")
        if s == "eigen":
            ac = EigenConfig(exponent_multiplier=p.get("mult", 1.0))
        elif s == "eigen_stab":
            ac = EigenConfig(exponent_multiplier=p.get("mult", 1.0), enhance_stability=True)
        elif s == "newton":
            ac = CoupledNewtonConfig(max_iterations=p.get("max_it", 100), tolerance=p.get("ntol", 1e-6))
        elif s == "higher":
            ac = CoupledHigherOrderConfig(rel_epsilon=p.get("rel_eps", 0.0), max_iterations=p.get("max_it", 100), tolerance=p.get("ntol", 1e-8), order=p.get("order", 3))
        else:
            raise ValueError(s)
        return ShampooPreconditionerConfig(amortized_computation_config=ac, **common)
    m = p.get("method", "eigh")
    ac = EighEigenvectorConfig() if m == "eigh" else QRConfig(max_iterations=p.get("max_it", 1), tolerance=p.get("qr_tol", 1e-5))
    return EigenvalueCorrectedShampooPreconditionerConfig(amortized_computation_config=ac, **common)


def optimizer_kwargs(cfg: dict) -> dict:
    ov = cfg.get("override", 0)
    return dict(
        lr=cfg["lr"],
        betas=(cfg["beta1"], cfg["beta2"]),
        beta3=cfg.get("beta3", -1.0),
        epsilon=cfg["epsilon"],
        momentum=cfg.get("momentum", 0.0),
        dampening=cfg.get("dampening", 0.0),
        weight_decay=cfg.get("wd", 0.0),
        max_preconditioner_dim=cfg["mpd"],
        precondition_frequency=cfg.get("freq", 1),
        start_preconditioning_step=cfg.get("start", -1),
        inv_root_override=list(ov) if isinstance(ov, (list, tuple)) else ov,
        use_nesterov=cfg.get("nesterov", False),
        use_bias_correction=cfg.get("bias", True),
        use_decoupled_weight_decay=cfg.get("decoupled", True),
        grafting_config=build_graft(cfg.get("graft")),
        use_merge_dims=cfg.get("merge", True),
        preconditioner_dtype=DT[cfg.get("fdtype", "f32")],
        preconditioner_config=build_precond(cfg["precond"]),
    )


def build_optimizer(params, cfg: dict, **extra):
    from distributed_shampoo.distributed_shampoo import DistributedShampoo

    kw = optimizer_kwargs(cfg)
    kw.update(extra)
    return DistributedShampoo(params, **kw)


def make_params(shapes: list, seed: int, dtype, scale: float = 1.0) -> list[torch.nn.Parameter]:
    """dtype: one torch.dtype or one per parameter."""
    dts = list(dtype) if isinstance(dtype, (list, tuple)) else [dtype] * len(shapes)
    return [torch.nn.Parameter(make_tensor(s, "gauss", seed * 131 + i, scale, dts[i])) for i, s in enumerate(shapes)]


def step_grads(shapes: list, step: dict, dtype) -> list[torch.Tensor | None]:
    out: list[torch.Tensor | None] = []
    dts = list(dtype) if isinstance(dtype, (list, tuple)) else [dtype] * len(shapes)
    for i, s in enumerate(shapes):
        if step["mask"][i]:
            kind = step["gkind"] if ((step["gseed"] + i) % 4 or step["gkind"] in ("rowsparse", "onehot", "zeros")) else "gauss"
            out.append(make_tensor(s, kind, step["gseed"] * 977 + i, step["gscale"], dts[i]))
        else:
            out.append(None)
    return out


def effective(cfg: dict) -> dict:
    """Resolve -1 defaults the way the documentation states (beta3 <- beta1, start <- frequency)."""
    c = dict(cfg)
    if c.get("beta3", -1.0) == -1.0:
        c["beta3"] = c["beta1"]
    if c.get("start", -1) == -1:
        c["start"] = c.get("freq", 1)
    return c
