"""Per-shard exploration engines: Hypothesis @given, Hypothesis stateful, finite enumeration.

Every run is a pure function of (code under test, seed): Hypothesis is the only entropy source
(@seed, database=None, derandomize=False).  Shrinking is bounded by a *budget of wall time that
only ever makes a reported counterexample less minimal* - it never decides pass/fail.
"""
from __future__ import annotations

import hashlib
import time
import traceback
from collections import Counter
from typing import Any

from .core import Failure, OracleFailed, Outcome, Stream, case_hash, jsonable, replay_history


def derive_seed(*parts: Any) -> int:
    h = hashlib.sha256("/".join(str(p) for p in parts).encode()).digest()
    return int.from_bytes(h[:8], "big") % (2**63)


class ShardResult:
    def __init__(self) -> None:
        self.evaluations = 0
        self.sub_evaluations = 0
        self.nontrivial: set[str] = set()
        self.samples: list[Any] = []
        self.sample_hashes: set[str] = set()
        self.classes: Counter = Counter()
        self.failures: list[dict] = []  # {"case":…, "failures":[Failure.to_json()…]}
        self.excluded = 0
        self.error: str | None = None
        self.metrics: dict[str, float] = {}
        self.rounds = 0

    def record(self, case: Any, out: Outcome, max_samples: int = 3) -> None:
        self.evaluations += 1
        self.sub_evaluations += out.sub_evaluations
        self.excluded += out.excluded
        for c in out.classes:
            self.classes[c] += 1
        for k, v in out.metrics.items():
            if k not in self.metrics or v > self.metrics[k]:
                self.metrics[k] = v
        if out.nontrivial:
            h = case_hash(out.key if out.key is not None else case)
            if h not in self.nontrivial:
                self.nontrivial.add(h)
                if len(self.samples) < max_samples and h not in self.sample_hashes:
                    self.sample_hashes.add(h)
                    self.samples.append(jsonable(case))

    def to_json(self) -> dict:
        return {
            "evaluations": self.evaluations,
            "sub_evaluations": self.sub_evaluations,
            "nontrivial": sorted(self.nontrivial),
            "samples": self.samples,
            "classes": dict(self.classes),
            "failures": self.failures,
            "excluded": self.excluded,
            "error": self.error,
            "metrics": self.metrics,
            "rounds": self.rounds,
        }


class _Ctx:
    """Bookkeeping shared between a Hypothesis test body and the driver loop."""

    def __init__(self, res: ShardResult, excluded_buckets: set[str], shrink_budget_s: float):
        self.res = res
        self.excluded_buckets = excluded_buckets
        self.shrink_budget_s = shrink_budget_s
        self.first_failure_at: float | None = None
        self.last: dict | None = None
        self.executions = 0

    def exhausted(self) -> bool:
        return self.first_failure_at is not None and time.monotonic() - self.first_failure_at > self.shrink_budget_s

    def check(self, case: Any, failures: list[Failure]) -> None:
        bad = [f for f in failures if f.bucket() not in self.excluded_buckets]
        if bad:
            if self.first_failure_at is None:
                self.first_failure_at = time.monotonic()
            self.last = {"case": jsonable(case), "failures": [f.to_json() for f in bad], "bucket": bad[0].bucket()}
            raise OracleFailed(bad[0].bucket())


def _settings(n: int, shrink: bool, steps: int | None = None):
    from hypothesis import HealthCheck, Phase, Verbosity, settings

    phases = [Phase.generate, Phase.target]
    if shrink:
        phases.append(Phase.shrink)
    kw = dict(
        # Hypothesis always starts a run with its simplest example: small per-shard budgets would otherwise spend a large share on the same case
        max_examples=max(1, n) + (1 if n <= 12 else 0),
        database=None,
        deadline=None,
        derandomize=False,
        report_multiple_bugs=False,
        suppress_health_check=list(HealthCheck),
        phases=phases,
        print_blob=False,
        verbosity=Verbosity.quiet,
    )
    if steps is not None:
        kw["stateful_step_count"] = steps
    return settings(**kw)


def run_stream(stream: Stream, n: int, seed: int, tier: str, shard: int, nshards: int, max_rounds: int = 4) -> dict:
    res = ShardResult()
    try:
        if stream.enumerate is not None:
            _run_enum(stream, res, tier, shard, nshards)
        elif stream.machine is not None:
            _run_rounds(stream, res, n, seed, tier, max_rounds, stateful=True)
        else:
            _run_rounds(stream, res, n, seed, tier, max_rounds, stateful=False)
    except Exception:  # noqa: BLE001
        res.error = traceback.format_exc()
    return res.to_json()


def _run_enum(stream: Stream, res: ShardResult, tier: str, shard: int, nshards: int) -> None:
    seen_buckets: set[str] = set()
    for case in stream.enumerate(tier, shard, nshards):  # type: ignore[misc]
        out = stream.oracle(case)  # type: ignore[misc]
        res.record(case, out)
        for f in out.failures:
            if f.bucket() not in seen_buckets:
                seen_buckets.add(f.bucket())
                res.failures.append({"case": jsonable(case), "failures": [f.to_json()], "bucket": f.bucket()})


def _run_rounds(stream: Stream, res: ShardResult, n: int, seed: int, tier: str, max_rounds: int, stateful: bool) -> None:
    import hypothesis
    from hypothesis import errors as herr

    excluded: set[str] = set()
    remaining = n
    shrink_budget = 25.0 if tier == "quick" else 240.0
    rnd = 0
    while remaining > 0 and rnd < max_rounds:
        ctx = _Ctx(res, excluded, shrink_budget)
        rseed = derive_seed(seed, "round", rnd)
        try:
            if stateful:
                _one_round_stateful(stream, ctx, remaining, rseed, tier)
            else:
                _one_round_given(stream, ctx, remaining, rseed)
        except OracleFailed:
            pass
        except herr.Flaky:
            # produced by the shrink-budget cut-off (the test starts passing) - or by a genuinely
            # flaky oracle; in the second case the recorded failure does not replay and the runner
            # reports the discrepancy when it re-executes the case.
            if ctx.last is None:
                raise
        res.rounds += 1
        remaining -= max(1, ctx.executions)
        rnd += 1
        if ctx.last is None:
            break
        res.failures.append(ctx.last)
        excluded.add(ctx.last["bucket"])
    _ = hypothesis


def _one_round_given(stream: Stream, ctx: _Ctx, n: int, rseed: int) -> None:
    from hypothesis import given
    from hypothesis import seed as hseed

    oracle = stream.oracle
    strategy = stream.strategy()  # type: ignore[misc]

    @hseed(rseed)
    @_settings(n, shrink=True)
    @given(strategy)
    def test(case: Any) -> None:
        if ctx.exhausted():
            return
        ctx.executions += 1
        out = oracle(case)  # type: ignore[misc]
        ctx.res.record(case, out)
        tv = out.metrics.get("target")
        if tv is not None and tv == tv and abs(tv) != float("inf"):
            import hypothesis

            hypothesis.target(float(tv))
        ctx.check(case, out.failures)

    test()


def _one_round_stateful(stream: Stream, ctx: _Ctx, n: int, rseed: int, tier: str) -> None:
    from hypothesis import seed as hseed
    from hypothesis import strategies as st
    from hypothesis.stateful import RuleBasedStateMachine, initialize, rule, run_state_machine_as_test

    config_strategy, step_strategy, runner_factory = stream.machine  # type: ignore[misc]
    cfg_st = config_strategy()

    class Machine(RuleBasedStateMachine):
        def __init__(self) -> None:
            super().__init__()
            self.runner = None
            self.case: dict | None = None
            self.skip = ctx.exhausted()
            self.failed = False

        @initialize(config=cfg_st)
        def init(self, config: Any) -> None:
            if self.skip:
                return
            ctx.executions += 1
            self.case = {"config": config, "steps": []}
            self.runner = runner_factory(config)
            fails = self.runner.start() if hasattr(self.runner, "start") else []
            if fails:
                self.failed = True
                ctx.check(self.case, fails)

        @rule(data=st.data())
        def step(self, data: Any) -> None:
            if self.skip or self.runner is None or self.failed:
                return
            s = data.draw(step_strategy(self.runner), label="step")
            self.case["steps"].append(s)  # type: ignore[index]
            fails = self.runner.step(s)
            if fails:
                self.failed = True
                ctx.check(self.case, fails)

        def teardown(self) -> None:
            if self.runner is not None and self.case is not None:
                out = self.runner.finish()
                ctx.res.record(self.case, out)
                if not self.failed:
                    # end-of-history oracles
                    ctx.check(self.case, out.failures)

    steps = stream.max_steps if tier == "quick" else stream.max_steps_thorough
    run_state_machine_as_test(hseed(rseed)(Machine), settings=_settings(n, shrink=True, steps=steps))


def replay_case(stream: Stream, case: Any) -> Outcome:
    if stream.machine is not None:
        return replay_history(stream.machine[2], case)
    return stream.oracle(case)  # type: ignore[misc]
