"""Runner: shards a property's streams over worker processes, aggregates, writes evidence,
applies the known-findings file, prints VIOLATION / KNOWN-FINDING lines and sets the exit code.

Usage (through ./check):  python -m vf.runner <ID> [--tier quick|thorough] [--replay FILE]
"""
from __future__ import annotations

import argparse
import concurrent.futures as cf
import importlib
import json
import logging
import multiprocessing as mp
import os
import re
import sys
import time
import traceback
from collections import Counter
from pathlib import Path
from typing import Any

ROOT = Path(__file__).resolve().parent.parent
NPROC = int(os.environ.get("VERIF_NPROC", "16"))
# outputs (evidence/, replays/<ID>/found/) go to $VERIF_OUT when set (mutant runs must not touch the real evidence)
OUT = Path(os.environ.get("VERIF_OUT", str(ROOT)))


def _quiet_logging() -> None:
    logging.lastResort = None
    root = logging.getLogger()
    root.addHandler(logging.NullHandler())
    root.setLevel(logging.WARNING)
    import warnings

    warnings.filterwarnings("ignore")


def _worker_init() -> None:
    _quiet_logging()
    try:
        import torch

        torch.set_num_threads(1)
    except Exception:  # noqa: BLE001
        pass


def load_module(pid: str):
    return importlib.import_module(f"vf.props.{pid.lower()}")


def _task(args: tuple) -> dict:
    pid, stream_name, n, seed, tier, shard, nshards = args
    _worker_init()
    crash = os.environ.get("VERIF_SELFTEST_CRASH")  # self-test of the lost-worker path: "<stream>:<shard>:<marker file>" kills that shard's worker once
    if crash:
        cs, ci, marker = crash.split(":", 2)
        if cs == stream_name and int(ci) == shard and not os.path.exists(marker):
            open(marker, "w").close()
            os._exit(13)
    t0 = time.monotonic()
    try:
        from .engine import run_stream

        mod = load_module(pid)
        stream = mod.STREAMS[stream_name]
        r = run_stream(stream, n, seed, tier, shard, nshards)
    except Exception:  # noqa: BLE001
        r = {"error": traceback.format_exc(), "evaluations": 0, "sub_evaluations": 0, "nontrivial": [], "samples": [],
             "classes": {}, "failures": [], "excluded": 0, "metrics": {}, "rounds": 0}
    r["stream"] = stream_name
    r["shard"] = shard
    r["wall_s"] = time.monotonic() - t0
    return r


def _replay_task(args: tuple) -> dict:
    pid, stream_name, case = args
    _worker_init()
    try:
        from .engine import replay_case

        mod = load_module(pid)
        out = replay_case(mod.STREAMS[stream_name], case)
        return {"failures": [f.to_json() | {"bucket": f.bucket()} for f in out.failures], "error": None}
    except Exception:  # noqa: BLE001
        return {"failures": [], "error": traceback.format_exc()}


def load_known() -> list[dict]:
    p = ROOT / "known_findings.json"
    if not p.exists():
        return []
    return json.loads(p.read_text()).get("findings", [])


def match_known(pid: str, failure: dict, known: list[dict]) -> dict | None:
    """An *open* finding matches a failure when oracle and signature match its patterns."""
    for k in known:
        if k.get("status") != "open" or pid not in k.get("properties", [k.get("property")]):
            continue
        m = k.get("match", {})
        if re.search(m.get("oracle", "^$"), failure["oracle"]) and re.search(m.get("signature", "^$"), failure["signature"]):
            return k
    return None


def write_replay(pid: str, stream: str, case: Any, failures: list[dict]) -> str:
    from .core import case_hash

    d = OUT / "replays" / pid / "found"
    d.mkdir(parents=True, exist_ok=True)
    h = case_hash({"stream": stream, "case": case})[:16]
    p = d / f"{h}.json"
    p.write_text(json.dumps({"property": pid, "stream": stream, "case": case, "failures": failures}, indent=1, sort_keys=True))
    return str(p.relative_to(OUT))


def run_replay_file(pid: str, path: str) -> int:
    data = json.loads(Path(path).read_text())
    stream = data.get("stream")
    r = _replay_task((pid, stream, data["case"]))
    if r["error"]:
        print(f"HARNESS-ERROR property={pid} replay={path}\n{r['error']}")
        return 2
    known = load_known()
    viol = [f for f in r["failures"] if not match_known(pid, f, known)]
    for f in r["failures"]:
        print(f"  failure oracle={f['oracle']} signature={f['signature']}\n    {f['message'][:1500]}")
    if viol:
        print(f"VIOLATION property={pid} replay={path}")
        return 1
    print(f"replay of {path}: property {pid} holds on this case" + (" (only known findings)" if r["failures"] else ""))
    return 0


def main(argv: list[str] | None = None) -> int:
    ap = argparse.ArgumentParser()
    ap.add_argument("pid")
    ap.add_argument("--tier", default=os.environ.get("VERIF_TIER", "quick"), choices=["quick", "thorough"])
    ap.add_argument("--replay", default=None)
    ap.add_argument("--streams", default=None, help="comma-separated subset of streams (debugging)")
    ap.add_argument("--scale", type=float, default=float(os.environ.get("VERIF_SCALE", "1")), help="multiply case budgets")
    a = ap.parse_args(argv)
    pid = a.pid.upper()
    _quiet_logging()
    if a.replay:
        return run_replay_file(pid, a.replay)

    try:
        seed = int(os.environ.get("VERIF_SEED", "1"))
    except ValueError:
        seed = 1
    t0 = time.monotonic()
    try:
        mod = load_module(pid)
    except Exception:  # noqa: BLE001
        print(f"HARNESS-ERROR property={pid}: cannot import property module\n{traceback.format_exc()}")
        return 2

    from .engine import derive_seed

    streams = mod.STREAMS
    names = [s for s in streams if (a.streams is None or s in a.streams.split(","))]
    tasks: list[tuple] = []
    for name in names:
        st = streams[name]
        total = st.quick if a.tier == "quick" else st.thorough
        if total <= 0 and st.enumerate is None:
            continue
        total = max(1, int(total * a.scale))
        nsh = st.shards_quick if a.tier == "quick" else st.shards_thorough
        nsh = max(1, min(nsh, total if st.enumerate is None else nsh))
        per = (total + nsh - 1) // nsh
        for i in range(nsh):
            tasks.append((pid, name, per, derive_seed(seed, pid, name, i), a.tier, i, nsh))

    # 1. regression corpus: committed replay files are re-run first, through the plain oracle
    corpus = sorted((ROOT / "replays" / pid).glob("*.json"))
    known = load_known()
    violations: list[str] = []
    known_hits: dict[str, dict] = {}
    harness_errors: list[str] = []
    ctx = mp.get_context("spawn")
    timeout = float(os.environ.get("VERIF_TIMEOUT", "1500" if a.tier == "quick" else "14000"))
    results: list[dict] = []
    corpus_runs = 0
    with cf.ProcessPoolExecutor(max_workers=min(NPROC, max(1, len(tasks) + len(corpus))), mp_context=ctx) as ex:
        futs_c = {}
        for p in corpus:
            data = json.loads(p.read_text())
            futs_c[ex.submit(_replay_task, (pid, data.get("stream"), data["case"]))] = p
        futs = [ex.submit(_task, t) for t in tasks]
        try:
            for f, p in futs_c.items():
                try:
                    r = f.result(timeout=timeout)
                except cf.TimeoutError:
                    raise
                except Exception:  # noqa: BLE001 - pool broken by a dying worker: replay this file in a fresh single-worker pool
                    with cf.ProcessPoolExecutor(max_workers=1, mp_context=ctx) as exr:
                        data = json.loads(p.read_text())
                        try:
                            r = exr.submit(_replay_task, (pid, data.get("stream"), data["case"])).result(timeout=timeout)
                        except Exception as e2:  # noqa: BLE001
                            harness_errors.append(f"replay {p.name}: worker failed twice ({type(e2).__name__})")
                            continue
                corpus_runs += 1
                if r["error"]:
                    harness_errors.append(f"replay {p.name}: {r['error']}")
                    continue
                for fl in r["failures"]:
                    k = match_known(pid, fl, known)
                    if k:
                        known_hits[k["id"]] = k
                    else:
                        rel = str(p.relative_to(ROOT))
                        print(f"  regression-corpus failure oracle={fl['oracle']} signature={fl['signature']}\n    {fl['message'][:800]}")
                        if rel not in violations:
                            violations.append(rel)
            retry: list[tuple] = []
            for f, t_ in zip(futs, tasks):
                try:
                    results.append(f.result(timeout=max(1.0, timeout - (time.monotonic() - t0))))
                except cf.TimeoutError:
                    raise
                except Exception as e:  # noqa: BLE001 - a worker process died (BrokenProcessPool) or the task could not be transferred
                    retry.append((t_, f"{type(e).__name__}: {e}"))
            if retry:
                # every task is a pure function of its seed: run the lost shards once more in a fresh pool before giving up (exit 2, never a VIOLATION)
                print(f"  note: {len(retry)} shard(s) lost their worker process ({retry[0][1][:120]}); re-running them in a fresh pool")
                with cf.ProcessPoolExecutor(max_workers=min(NPROC, len(retry)), mp_context=ctx) as ex2:
                    futs2 = [(ex2.submit(_task, t_), t_) for t_, _ in retry]
                    for f2, t_ in futs2:
                        try:
                            results.append(f2.result(timeout=max(1.0, timeout - (time.monotonic() - t0))))
                        except Exception as e:  # noqa: BLE001
                            harness_errors.append(f"stream {t_[1]} shard {t_[5]}: worker failed twice ({type(e).__name__}: {str(e)[:200]})")
        except cf.TimeoutError:
            harness_errors.append(f"timeout after {timeout}s (inconclusive)")
            for f in futs:
                f.cancel()
            ex.shutdown(wait=False, cancel_futures=True)
            for pr in list(getattr(ex, "_processes", {}).values()):
                try:
                    pr.kill()
                except Exception:  # noqa: BLE001
                    pass

    # 2. aggregate
    evaluations = 0
    sub_evals = 0
    nontrivial: set[str] = set()
    samples: list[Any] = []
    classes: Counter = Counter()
    excluded = 0
    metrics: dict[str, float] = {}
    per_stream: dict[str, dict] = {}
    found: list[dict] = []
    for r in results:
        if r.get("error"):
            harness_errors.append(f"stream {r['stream']} shard {r['shard']}: {r['error']}")
        evaluations += r["evaluations"]
        sub_evals += r.get("sub_evaluations", 0)
        nontrivial.update(r["stream"] + ":" + h for h in r["nontrivial"])
        classes.update({f"{r['stream']}/{k}": v for k, v in r["classes"].items()})
        excluded += r["excluded"]
        for k, v in r.get("metrics", {}).items():
            kk = f"{r['stream']}/{k}"
            if kk not in metrics or v > metrics[kk]:
                metrics[kk] = v
        ps = per_stream.setdefault(r["stream"], {"evaluations": 0, "distinct_nontrivial": 0, "wall_s_max": 0.0, "samples": 0})
        ps["evaluations"] += r["evaluations"]
        ps["distinct_nontrivial"] += len(r["nontrivial"])
        ps["wall_s_max"] = max(ps["wall_s_max"], round(r["wall_s"], 1))
        if ps["samples"] < 2:
            for s in r["samples"][: 2 - ps["samples"]]:
                samples.append({"stream": r["stream"], "case": s})
                ps["samples"] += 1
        for fl in r["failures"]:
            found.append({"stream": r["stream"], **fl})
    for name in names:
        if name in per_stream:
            per_stream[name]["exhaustive"] = bool(streams[name].exhaustive)

    # 3. classify what was found: known finding / violation
    for item in found:
        unknown = [f for f in item["failures"] if not match_known(pid, f, known)]
        for f in item["failures"]:
            k = match_known(pid, f, known)
            if k:
                known_hits[k["id"]] = k
        if unknown:
            path = write_replay(pid, item["stream"], item["case"], unknown)
            for f in unknown:
                print(f"  failure stream={item['stream']} oracle={f['oracle']} signature={f['signature']}\n    {f['message'][:1500]}")
            violations.append(path)

    # 4. directed probes for open findings (KNOWN-FINDING printed only while the probe still fails)
    probes = getattr(mod, "PROBES", {})
    for k in known:
        if k.get("status") != "open" or pid not in k.get("properties", [k.get("property")]):
            continue
        pr = probes.get(k["id"])
        if pr is None:
            continue
        stream_name, case = pr
        r = _replay_task((pid, stream_name, case))
        if r["error"]:
            harness_errors.append(f"probe {k['id']}: {r['error']}")
            continue
        hit = False
        for fl in r["failures"]:
            if match_known(pid, fl, [k]):
                hit = True
            elif not match_known(pid, fl, known):
                path = write_replay(pid, stream_name, case, [fl])
                print(f"  probe {k['id']} failed differently: oracle={fl['oracle']} signature={fl['signature']}")
                violations.append(path)
        if hit:
            known_hits[k["id"]] = k
        else:
            known_hits.pop(k["id"], None)
    for k in known_hits.values():
        print(f"KNOWN-FINDING: property={pid} {k['id']} {k['text']}")

    wall = time.monotonic() - t0
    floor = getattr(mod, "NONTRIVIAL_FLOOR", 2)
    rule = getattr(mod, "RULE", "")
    exhaustive_all = bool(names) and all(streams[n].exhaustive for n in names if n in per_stream)
    evidence = {
        "property_id": pid,
        "tier": a.tier,
        "seed": seed,
        "level": getattr(mod, "LEVEL", "exploration"),
        "coverage": {
            "evaluations": evaluations,
            "distinct_nontrivial": len(nontrivial),
            "rule": rule,
            "samples": samples[:8],
            "sub_evaluations": sub_evals,
            "class_histogram": dict(sorted(classes.items())),
            "per_stream": per_stream,
            "excluded_for_open_findings": excluded,
            "regression_corpus_replayed": corpus_runs,
            "max_observed": {k: v for k, v in sorted(metrics.items())},
            "exhaustive": exhaustive_all,
            "bounds": getattr(mod, "BOUNDS", ""),
            "tolerances": getattr(mod, "TOLERANCES", ""),
            "known_findings_reported": sorted(known_hits),
        },
        "assumptions": getattr(mod, "ASSUMPTIONS", []),
        "wall_s": round(wall, 2),
        "violations": len(violations),
    }
    ev_dir = OUT / "evidence"
    ev_dir.mkdir(parents=True, exist_ok=True)
    (ev_dir / f"{pid}.json").write_text(json.dumps(evidence, indent=1, sort_keys=False, default=str))

    print(f"[{pid}] tier={a.tier} seed={seed} evaluations={evaluations} distinct_nontrivial={len(nontrivial)} "
          f"excluded={excluded} corpus={corpus_runs} wall={wall:.1f}s")
    for s, ps in per_stream.items():
        print(f"    stream {s}: evaluations={ps['evaluations']} nontrivial={ps['distinct_nontrivial']} slowest_shard={ps['wall_s_max']}s")
    if violations:
        for v in violations:
            print(f"VIOLATION property={pid} replay={v}")
        return 1
    if harness_errors:
        for e in harness_errors:
            print(f"HARNESS-ERROR property={pid}: {e}")
        return 2
    if len(nontrivial) < floor:
        print(f"HARNESS-ERROR property={pid}: only {len(nontrivial)} distinct non-trivial cases (< floor {floor}); generator is vacuous")
        return 2
    return 0


if __name__ == "__main__":
    try:
        rc = main()
    except SystemExit:
        raise
    except BaseException:  # noqa: BLE001 - an exception of the harness itself is never a verdict about the property
        import traceback

        traceback.print_exc()
        print("HARNESS-ERROR: uncaught exception in the runner (see traceback above)")
        rc = 2
    sys.exit(rc)
